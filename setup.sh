#!/bin/bash
# Run once after a fresh restore, offline.  Builds nothing irreversible: creates .work/ and
# primes the Kani dependency cache for the overlay (so that the first check does not pay for it).
set -u
cd "$(dirname "$0")"
export CARGO_NET_OFFLINE=true
mkdir -p .work evidence replays
python3 lib/overlay.py >/dev/null 2>&1 || true
exit 0
