// C18 — QuoteJSONString (the string half of JSON.stringify) against an independent code-unit model of
// ECMA-262 25.5.2.2 / ECMA-404: output is exactly `"` + escaped units + `"`.
use super::*;
use boa_string::JsStr;

fn noop() {}
fn no_static(_s: &JsStr<'_>) -> Option<JsString> {
    None
}

fn hex(n: u16) -> u16 {
    if n < 10 { b'0' as u16 + n } else { b'a' as u16 + (n - 10) }
}

/// Independent model working on code units (the implementation iterates code points).
fn model(units: &[u16], out: &mut [u16; 32]) -> usize {
    let mut n = 0;
    let mut push = |x: u16, n: &mut usize| {
        out[*n] = x;
        *n += 1;
    };
    push(0x22, &mut n);
    let mut i = 0;
    while i < units.len() {
        let c = units[i];
        let short: u16 = match c {
            0x08 => b'b' as u16,
            0x09 => b't' as u16,
            0x0A => b'n' as u16,
            0x0C => b'f' as u16,
            0x0D => b'r' as u16,
            0x22 => 0x22,
            0x5C => 0x5C,
            _ => 0,
        };
        let is_high = c >= 0xD800 && c < 0xDC00;
        let is_low = c >= 0xDC00 && c < 0xE000;
        if short != 0 {
            push(0x5C, &mut n);
            push(short, &mut n);
        } else if is_high && i + 1 < units.len() && units[i + 1] >= 0xDC00 && units[i + 1] < 0xE000 {
            push(c, &mut n);
            push(units[i + 1], &mut n);
            i += 1;
        } else if c < 0x20 || is_high || is_low {
            push(0x5C, &mut n);
            push(b'u' as u16, &mut n);
            push(hex(c >> 12), &mut n);
            push(hex((c >> 8) & 0xF), &mut n);
            push(hex((c >> 4) & 0xF), &mut n);
            push(hex(c & 0xF), &mut n);
        } else {
            push(c, &mut n);
        }
        i += 1;
    }
    push(0x22, &mut n);
    n
}

macro_rules! quote {
    ($name:ident, $n:expr, $unwind:expr) => {
        #[kani::proof]
        #[kani::unwind($unwind)]
        #[kani::stub(std::rt::thread_cleanup, noop)]
        #[kani::stub(boa_string::StaticJsStrings::get_string, no_static)]
        fn $name() {
            const N: usize = $n;
            let u: [u16; N] = kani::any();
            let s = JsString::from(&u[..]);
            let q = Json::quote_json_string(&s);
            let mut want = [0u16; 32];
            let wn = model(&u, &mut want);
            let got = q.as_str();
            assert!(got.len() == wn, "verif: quoted length equals the model's");
            let mut i = 0;
            while i < wn {
                assert!(got.get(i) == Some(want[i]), "verif: QuoteJSONString output equals the ECMA-404 escape form unit by unit");
                i += 1;
            }
            kani::cover!(u[0] < 0x20 && u[0] != 8 && u[0] != 9 && u[0] != 10 && u[0] != 12 && u[0] != 13, "control character via \\u00XX");
            kani::cover!(u[0] >= 0xD800 && u[0] < 0xDC00 && N > 1 && u[N - 1] >= 0xDC00 && u[N - 1] < 0xE000, "surrogate pair somewhere");
            kani::cover!(u[N - 1] >= 0xD800 && u[N - 1] < 0xDC00, "lone high surrogate at the end");
            kani::cover!(u[0] == 0x22, "quotation mark");
            kani::cover!(true, "reaches end");
            std::mem::forget(s);
            std::mem::forget(q);
        }
    };
}

// @harness h18a_quote_n1 tier=quick props=C18,C02
// @bounds strings of exactly 1 code unit over the full 16-bit alphabet
// @domain ∀ u∈u16^1
// @claim quote_json_string(u) == `"` + escape(u) + `"` per ECMA-262 25.5.2.2: short escapes exactly for \b \t \n \f \r " \\, \u00xx (lower-case hex) for other units < 0x20, \udxxx for a lone surrogate, everything else verbatim
// @stubs std::rt::thread_cleanup→{}; boa_string::StaticJsStrings::get_string→None (static-string canonicalisation is an optimisation; the generic heap path is the one under test)
quote!(h18a_quote_n1, 1, 12);
// @harness h18a_quote_n2 tier=quick props=C18,C02
// @bounds strings of exactly 2 code units over the full 16-bit alphabet
// @domain ∀ u∈u16^2
// @claim as h18a_quote_n1, plus: a high surrogate followed by a low surrogate is copied verbatim as a pair, any other surrogate is escaped
// @stubs std::rt::thread_cleanup→{}; boa_string::StaticJsStrings::get_string→None
quote!(h18a_quote_n2, 2, 18);
// @harness h18a_quote_n3 tier=thorough props=C18,C02
// @bounds strings of exactly 3 code units over the full 16-bit alphabet
// @domain ∀ u∈u16^3
// @claim as h18a_quote_n2 (lone surrogate before/after a pair)
// @stubs std::rt::thread_cleanup→{}; boa_string::StaticJsStrings::get_string→None
quote!(h18a_quote_n3, 3, 24);

// @harness h18a_hex_digit tier=quick props=C18
// @bounds none
// @domain ∀ nibble 0..=15
// @claim to_hex_digit(n) is the lower-case hexadecimal digit of n
#[kani::proof]
fn h18a_hex_digit() {
    let n: u16 = kani::any();
    kani::assume(n < 16);
    assert!(to_hex_digit(n) == hex(n), "verif: to_hex_digit is lower-case hex");
    kani::cover!(n == 15, "f");
    kani::cover!(true, "reaches end");
}
