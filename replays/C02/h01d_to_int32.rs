// replay for property C02, harness h01d_to_int32 (package boa_engine, flags --no-default-features)
// failing checks: attempt to shift right with overflow
// native reproduction: [{"fn": "kani_concrete_playback_h01d_to_int32_1648742337912945456", "dev_fails": true, "release_fails": null, "panic": "panicked at core/engine/src/builtins/number/conversions.rs:65:9:\nattempt to shift right with overflow"}]
// @replay package=boa_engine harness=h01d_to_int32 tag=c01d flags=--no-default-features
/// Test generated for harness `builtins::number::conversions::verif_kani_conversions_c01d::h01d_to_int32` 
///
/// Check for `assertion`: "attempt to shift right with overflow"
#[test]
fn kani_concrete_playback_h01d_to_int32_1648742337912945456() {
    let concrete_vals: Vec<Vec<u8>> = vec![
        // 13776792735103057920ul
        vec![0, 0, 0, 0, 0, 0, 49, 191],
    ];
    kani::concrete_playback_run(concrete_vals, h01d_to_int32);
}
