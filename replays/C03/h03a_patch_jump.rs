// replay for property C03, harness h03a_patch_jump (package boa_engine, flags --no-default-features)
// failing checks: verif: patched address decodes
// native reproduction: [{"fn": "kani_concrete_playback_h03a_patch_jump_7786815464257841171", "dev_fails": true, "release_fails": null, "panic": "panicked at core/engine/src/vm/opcode/verif_kani_mod_c03a.rs:54:42:\nverif: patched address decodes"}]
// @replay package=boa_engine harness=h03a_patch_jump tag=c03a flags=--no-default-features
/// Test generated for harness `vm::opcode::verif_kani_mod_c03a::h03a_patch_jump` 
///
/// Check for `assertion`: ""verif: patched address decodes""
#[test]
fn kani_concrete_playback_h03a_patch_jump_7786815464257841171() {
    let concrete_vals: Vec<Vec<u8>> = vec![
        // 0
        vec![0],
        // 0
        vec![0],
        // 0
        vec![0],
        // 0
        vec![0, 0, 0, 0],
        // 2147483648
        vec![0, 0, 0, 128],
        // 0
        vec![0, 0, 0, 0],
    ];
    kani::concrete_playback_run(concrete_vals, h03a_patch_jump);
}
