// replay for property C13, harness h13a_float_r32_n12 (package boa_engine, flags --no-default-features)
// failing checks: verif: parseInt digits are the correctly rounded exact integer
// native reproduction: [{"fn": "kani_concrete_playback_h13a_float_r32_n12_5541553115315703764", "dev_fails": true, "release_fails": null, "panic": "panicked at core/engine/src/builtins/number/verif_kani_globals_c13a.rs:97:1:\nverif: parseInt digits are the correctly rounded exact integer"}]
// @replay package=boa_engine harness=h13a_float_r32_n12 tag=c13a flags=--no-default-features
/// Test generated for harness `builtins::number::globals::verif_kani_globals_c13a::h13a_float_r32_n12` 
///
/// Check for `assertion`: ""verif: parseInt digits are the correctly rounded exact integer""
#[test]
fn kani_concrete_playback_h13a_float_r32_n12_5541553115315703764() {
    let concrete_vals: Vec<Vec<u8>> = vec![
        // 56
        vec![56],
        // 52
        vec![52],
        // 51
        vec![51],
        // 74
        vec![74],
        // 113
        vec![113],
        // 48
        vec![48],
        // 56
        vec![56],
        // 51
        vec![51],
        // 55
        vec![55],
        // 48
        vec![48],
        // 104
        vec![104],
        // 104
        vec![104],
    ];
    kani::concrete_playback_run(concrete_vals, h13a_float_r32_n12);
}
