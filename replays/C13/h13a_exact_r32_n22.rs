// replay for property C13, harness h13a_exact_r32_n22 (package boa_engine, flags --no-default-features)
// failing checks: verif: parseInt digits are the correctly rounded exact integer
// native reproduction: [{"fn": "kani_concrete_playback_h13a_exact_r32_n22_14523342926000647749", "dev_fails": true, "release_fails": null, "panic": "panicked at core/engine/src/builtins/number/verif_kani_globals_c13a.rs:305:1:\nverif: parseInt digits are the correctly rounded exact integer"}]
// @replay package=boa_engine harness=h13a_exact_r32_n22 tag=c13a flags=--no-default-features
/// Test generated for harness `builtins::number::globals::verif_kani_globals_c13a::h13a_exact_r32_n22` 
///
/// Check for `assertion`: ""verif: parseInt digits are the correctly rounded exact integer""
#[test]
fn kani_concrete_playback_h13a_exact_r32_n22_14523342926000647749() {
    let concrete_vals: Vec<Vec<u8>> = vec![
        // 85
        vec![85],
        // 49
        vec![49],
        // 49
        vec![49],
        // 48
        vec![48],
        // 48
        vec![48],
        // 66
        vec![66],
        // 48
        vec![48],
        // 48
        vec![48],
        // 48
        vec![48],
        // 48
        vec![48],
        // 50
        vec![50],
        // 48
        vec![48],
        // 49
        vec![49],
        // 56
        vec![56],
        // 56
        vec![56],
        // 51
        vec![51],
        // 48
        vec![48],
        // 48
        vec![48],
        // 80
        vec![80],
        // 53
        vec![53],
        // 49
        vec![49],
        // 49
        vec![49],
    ];
    kani::concrete_playback_run(concrete_vals, h13a_exact_r32_n22);
}
