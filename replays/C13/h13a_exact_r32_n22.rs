// replay for property C13, harness h13a_exact_r32_n22 (package boa_engine, flags --no-default-features)
// failing checks: verif: parseInt digits are the correctly rounded exact integer
// native reproduction: [{"fn": "kani_concrete_playback_h13a_exact_r32_n22_1348505894472050267", "dev_fails": true, "release_fails": null, "panic": "panicked at core/engine/src/builtins/number/verif_kani_globals_c13a.rs:305:1:\nverif: parseInt digits are the correctly rounded exact integer"}]
// @replay package=boa_engine harness=h13a_exact_r32_n22 tag=c13a flags=--no-default-features
/// Test generated for harness `builtins::number::globals::verif_kani_globals_c13a::h13a_exact_r32_n22` 
///
/// Check for `assertion`: ""verif: parseInt digits are the correctly rounded exact integer""
#[test]
fn kani_concrete_playback_h13a_exact_r32_n22_1348505894472050267() {
    let concrete_vals: Vec<Vec<u8>> = vec![
        // 49
        vec![49],
        // 86
        vec![86],
        // 71
        vec![71],
        // 104
        vec![104],
        // 48
        vec![48],
        // 48
        vec![48],
        // 56
        vec![56],
        // 104
        vec![104],
        // 49
        vec![49],
        // 48
        vec![48],
        // 56
        vec![56],
        // 52
        vec![52],
        // 48
        vec![48],
        // 48
        vec![48],
        // 48
        vec![48],
        // 48
        vec![48],
        // 55
        vec![55],
        // 52
        vec![52],
        // 49
        vec![49],
        // 68
        vec![68],
        // 100
        vec![100],
        // 100
        vec![100],
    ];
    kani::concrete_playback_run(concrete_vals, h13a_exact_r32_n22);
}
