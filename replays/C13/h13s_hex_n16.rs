// replay for property C13, harness h13s_hex_n16 (package boa_string, flags )
// failing checks: verif: non-decimal literal is the exact integer rounded once
// native reproduction: [{"fn": "kani_concrete_playback_h13s_hex_n16_5919973924216109121", "dev_fails": true, "release_fails": null, "panic": "panicked at core/string/src/verif_kani_str_c13s.rs:117:1:\nverif: non-decimal literal is the exact integer rounded once"}]
// @replay package=boa_string harness=h13s_hex_n16 tag=c13s flags=
/// Test generated for harness `str::verif_kani_str_c13s::h13s_hex_n16` 
///
/// Check for `assertion`: ""verif: non-decimal literal is the exact integer rounded once""
#[test]
fn kani_concrete_playback_h13s_hex_n16_5919973924216109121() {
    let concrete_vals: Vec<Vec<u8>> = vec![
        // 8
        vec![8],
        // 4
        vec![4],
        // 1
        vec![1],
        // 8
        vec![8],
        // 0
        vec![0],
        // 1
        vec![1],
        // 11
        vec![11],
        // 2
        vec![2],
        // 1
        vec![1],
        // 0
        vec![0],
        // 0
        vec![0],
        // 0
        vec![0],
        // 0
        vec![0],
        // 4
        vec![4],
        // 0
        vec![0],
        // 2
        vec![2],
    ];
    kani::concrete_playback_run(concrete_vals, h13s_hex_n16);
}
