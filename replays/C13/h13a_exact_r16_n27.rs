// replay for property C13, harness h13a_exact_r16_n27 (package boa_engine, flags --no-default-features)
// failing checks: verif: parseInt digits are the correctly rounded exact integer
// native reproduction: [{"fn": "kani_concrete_playback_h13a_exact_r16_n27_6638677223770162", "dev_fails": true, "release_fails": null, "panic": "panicked at core/engine/src/builtins/number/verif_kani_globals_c13a.rs:300:1:\nverif: parseInt digits are the correctly rounded exact integer"}]
// @replay package=boa_engine harness=h13a_exact_r16_n27 tag=c13a flags=--no-default-features
/// Test generated for harness `builtins::number::globals::verif_kani_globals_c13a::h13a_exact_r16_n27` 
///
/// Check for `assertion`: ""verif: parseInt digits are the correctly rounded exact integer""
#[test]
fn kani_concrete_playback_h13a_exact_r16_n27_6638677223770162() {
    let concrete_vals: Vec<Vec<u8>> = vec![
        // 48
        vec![48],
        // 56
        vec![56],
        // 49
        vec![49],
        // 49
        vec![49],
        // 48
        vec![48],
        // 48
        vec![48],
        // 48
        vec![48],
        // 48
        vec![48],
        // 48
        vec![48],
        // 48
        vec![48],
        // 67
        vec![67],
        // 49
        vec![49],
        // 48
        vec![48],
        // 52
        vec![52],
        // 52
        vec![52],
        // 48
        vec![48],
        // 48
        vec![48],
        // 48
        vec![48],
        // 56
        vec![56],
        // 48
        vec![48],
        // 48
        vec![48],
        // 48
        vec![48],
        // 50
        vec![50],
        // 56
        vec![56],
        // 48
        vec![48],
        // 49
        vec![49],
        // 50
        vec![50],
    ];
    kani::concrete_playback_run(concrete_vals, h13a_exact_r16_n27);
}
