// replay for property C13, harness h13a_exact_r16_n27 (package boa_engine, flags --no-default-features)
// failing checks: verif: parseInt digits are the correctly rounded exact integer
// native reproduction: [{"fn": "kani_concrete_playback_h13a_exact_r16_n27_8859826863781303128", "dev_fails": true, "release_fails": null, "panic": "panicked at core/engine/src/builtins/number/verif_kani_globals_c13a.rs:300:1:\nverif: parseInt digits are the correctly rounded exact integer"}]
// @replay package=boa_engine harness=h13a_exact_r16_n27 tag=c13a flags=--no-default-features
/// Test generated for harness `builtins::number::globals::verif_kani_globals_c13a::h13a_exact_r16_n27` 
///
/// Check for `assertion`: ""verif: parseInt digits are the correctly rounded exact integer""
#[test]
fn kani_concrete_playback_h13a_exact_r16_n27_8859826863781303128() {
    let concrete_vals: Vec<Vec<u8>> = vec![
        // 48
        vec![48],
        // 48
        vec![48],
        // 56
        vec![56],
        // 52
        vec![52],
        // 52
        vec![52],
        // 48
        vec![48],
        // 48
        vec![48],
        // 48
        vec![48],
        // 48
        vec![48],
        // 48
        vec![48],
        // 48
        vec![48],
        // 48
        vec![48],
        // 70
        vec![70],
        // 67
        vec![67],
        // 48
        vec![48],
        // 52
        vec![52],
        // 55
        vec![55],
        // 67
        vec![67],
        // 67
        vec![67],
        // 56
        vec![56],
        // 102
        vec![102],
        // 65
        vec![65],
        // 65
        vec![65],
        // 49
        vec![49],
        // 55
        vec![55],
        // 48
        vec![48],
        // 48
        vec![48],
    ];
    kani::concrete_playback_run(concrete_vals, h13a_exact_r16_n27);
}
