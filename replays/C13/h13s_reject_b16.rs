// replay for property C13, harness h13s_reject_b16 (package boa_string, flags )
// failing checks: verif: any byte that is not a digit of the base (signs included) makes the literal NaN
// native reproduction: [{"fn": "kani_concrete_playback_h13s_reject_b16_8182321725431014420", "dev_fails": true, "release_fails": null, "panic": "panicked at core/string/src/verif_kani_str_c13s.rs:64:1:\nverif: any byte that is not a digit of the base (signs included) makes the literal NaN"}]
// @replay package=boa_string harness=h13s_reject_b16 tag=c13s flags=
/// Test generated for harness `str::verif_kani_str_c13s::h13s_reject_b16` 
///
/// Check for `assertion`: ""verif: any byte that is not a digit of the base (signs included) makes the literal NaN""
#[test]
fn kani_concrete_playback_h13s_reject_b16_8182321725431014420() {
    let concrete_vals: Vec<Vec<u8>> = vec![
        // 43
        vec![43],
        // 102
        vec![102],
        // 56
        vec![56],
    ];
    kani::concrete_playback_run(concrete_vals, h13s_reject_b16);
}
