// replay for property C14, harness h14b_set_dense_i32_float_1 (package boa_engine, flags --no-default-features --features jsvalue-enum)
// failing checks: verif: the stored Number reads back as the same value (−0, NaN, fractions included)
// native reproduction: [{"fn": "kani_concrete_playback_h14b_set_dense_i32_float_1_4781565698599117810", "dev_fails": true, "release_fails": null, "panic": "panicked at core/engine/src/object/verif_kani_property_map_c14b.rs:88:1:\nverif: the stored Number reads back as the same value (\u22120, NaN, fractions included)"}]
// @replay package=boa_engine harness=h14b_set_dense_i32_float_1 tag=c14b flags=--no-default-features,--features,jsvalue-enum
/// Test generated for harness `object::property_map::verif_kani_property_map_c14b::h14b_set_dense_i32_float_1` 
///
/// Check for `assertion`: ""verif: the stored Number reads back as the same value (−0, NaN, fractions included)""
///
/// # Warning
///
/// Concrete playback tests combined with stubs or contracts is highly
/// experimental, and subject to change.
///
/// The original harness has stubs which are not applied to this test.
/// This may cause a mismatch of non-deterministic values if the stub
/// creates any non-deterministic value.
/// The execution path may also differ, which can be used to refine the stub
/// logic.
#[test]
fn kani_concrete_playback_h14b_set_dense_i32_float_1_4781565698599117810() {
    let concrete_vals: Vec<Vec<u8>> = vec![
        // -2
        vec![254, 255, 255, 255],
        // -2
        vec![254, 255, 255, 255],
        // 9223372036854775808ul
        vec![0, 0, 0, 0, 0, 0, 0, 128],
    ];
    kani::concrete_playback_run(concrete_vals, h14b_set_dense_i32_float_1);
}
