// replay for property C15, harness h15d_memmove_shared_up8_off1 (package boa_engine, flags --no-default-features)
// failing checks: verif: overlapping shared-buffer move equals the byte model
// native reproduction: [{"fn": "kani_concrete_playback_h15d_memmove_shared_up8_off1_10197108603260017169", "dev_fails": true, "release_fails": null, "panic": "panicked at core/engine/src/builtins/array_buffer/verif_kani_utils_c15d.rs:186:1:\nverif: overlapping shared-buffer move equals the byte model"}]
// @replay package=boa_engine harness=h15d_memmove_shared_up8_off1 tag=c15d flags=--no-default-features
/// Test generated for harness `builtins::array_buffer::utils::verif_kani_utils_c15d::h15d_memmove_shared_up8_off1` 
///
/// Check for `assertion`: ""verif: overlapping shared-buffer move equals the byte model""
#[test]
fn kani_concrete_playback_h15d_memmove_shared_up8_off1_10197108603260017169() {
    let concrete_vals: Vec<Vec<u8>> = vec![
        // 255
        vec![255],
        // 255
        vec![255],
        // 255
        vec![255],
        // 255
        vec![255],
        // 255
        vec![255],
        // 255
        vec![255],
        // 255
        vec![255],
        // 255
        vec![255],
        // 255
        vec![255],
        // 127
        vec![127],
        // 255
        vec![255],
        // 255
        vec![255],
        // 255
        vec![255],
        // 255
        vec![255],
        // 255
        vec![255],
        // 255
        vec![255],
        // 255
        vec![255],
        // 255
        vec![255],
        // 255
        vec![255],
        // 255
        vec![255],
        // 255
        vec![255],
        // 255
        vec![255],
        // 255
        vec![255],
        // 255
        vec![255],
        // 13ul
        vec![13, 0, 0, 0, 0, 0, 0, 0],
    ];
    kani::concrete_playback_run(concrete_vals, h15d_memmove_shared_up8_off1);
}
