// replay for property C15, harness h15d_memmove_shared_up8_off5 (package boa_engine, flags --no-default-features)
// failing checks: verif: overlapping shared-buffer move equals the byte model
// native reproduction: [{"fn": "kani_concrete_playback_h15d_memmove_shared_up8_off5_6274759143277848105", "dev_fails": true, "release_fails": null, "panic": "panicked at core/engine/src/builtins/array_buffer/verif_kani_utils_c15d.rs:191:1:\nverif: overlapping shared-buffer move equals the byte model"}]
// @replay package=boa_engine harness=h15d_memmove_shared_up8_off5 tag=c15d flags=--no-default-features
/// Test generated for harness `builtins::array_buffer::utils::verif_kani_utils_c15d::h15d_memmove_shared_up8_off5` 
///
/// Check for `assertion`: ""verif: overlapping shared-buffer move equals the byte model""
#[test]
fn kani_concrete_playback_h15d_memmove_shared_up8_off5_6274759143277848105() {
    let concrete_vals: Vec<Vec<u8>> = vec![
        // 2
        vec![2],
        // 255
        vec![255],
        // 255
        vec![255],
        // 255
        vec![255],
        // 255
        vec![255],
        // 254
        vec![254],
        // 255
        vec![255],
        // 0
        vec![0],
        // 249
        vec![249],
        // 255
        vec![255],
        // 255
        vec![255],
        // 255
        vec![255],
        // 248
        vec![248],
        // 253
        vec![253],
        // 252
        vec![252],
        // 0
        vec![0],
        // 255
        vec![255],
        // 255
        vec![255],
        // 255
        vec![255],
        // 255
        vec![255],
        // 255
        vec![255],
        // 255
        vec![255],
        // 255
        vec![255],
        // 128
        vec![128],
        // 10ul
        vec![10, 0, 0, 0, 0, 0, 0, 0],
    ];
    kani::concrete_playback_run(concrete_vals, h15d_memmove_shared_up8_off5);
}
