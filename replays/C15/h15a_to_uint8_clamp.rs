// replay for property C15, harness h15a_to_uint8_clamp (package boa_engine, flags --no-default-features)
// failing checks: verif: ToUint8Clamp rounds half to even and clamps
// native reproduction: [{"fn": "kani_concrete_playback_h15a_to_uint8_clamp_2526346780828101388", "dev_fails": true, "release_fails": null, "panic": "panicked at core/engine/src/value/verif_kani_mod_c15a.rs:122:5:\nverif: ToUint8Clamp rounds half to even and clamps"}]
// @replay package=boa_engine harness=h15a_to_uint8_clamp tag=c15a flags=--no-default-features
/// Test generated for harness `value::verif_kani_mod_c15a::h15a_to_uint8_clamp` 
///
/// Check for `assertion`: ""verif: ToUint8Clamp rounds half to even and clamps""
///
/// # Warning
///
/// Concrete playback tests combined with stubs or contracts is highly
/// experimental, and subject to change.
///
/// The original harness has stubs which are not applied to this test.
/// This may cause a mismatch of non-deterministic values if the stub
/// creates any non-deterministic value.
/// The execution path may also differ, which can be used to refine the stub
/// logic.
#[test]
fn kani_concrete_playback_h15a_to_uint8_clamp_2526346780828101388() {
    let concrete_vals: Vec<Vec<u8>> = vec![
        // 0
        vec![0],
        // 4643158439260848128ul
        vec![0, 0, 0, 0, 0, 208, 111, 64],
    ];
    kani::concrete_playback_run(concrete_vals, h15a_to_uint8_clamp);
}
