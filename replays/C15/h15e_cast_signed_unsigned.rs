// replay for property C15, harness h15e_cast_signed_unsigned (package boa_engine, flags --no-default-features)
// failing checks: verif: Int32 → Uint32 wraps; verif: Int32 → Uint8 truncates; verif: Uint8 → Int8 wraps
// native reproduction: [{"fn": "kani_concrete_playback_h15e_cast_signed_unsigned_14604656328052331490", "dev_fails": true, "release_fails": null, "panic": "panicked at core/engine/src/builtins/typed_array/verif_kani_mod_c15e.rs:153:5:\nverif: Uint8 \u2192 Int8 wraps"}, {"fn": "kani_concrete_playback_h15e_cast_signed_unsigned_17833301795051870368", "dev_fails": true, "release_fails": null, "panic": "panicked at core/engine/src/builtins/typed_array/verif_kani_mod_c15e.rs:154:5:\nverif: Int32 \u2192 Uint32 wraps"}, {"fn": "kani_concrete_playback_h15e_cast_signed_unsigned_17318698871366675803", "dev_fails": true, "release_fails": null, "panic": "panicked at core/engine/src/builtins/typed_array/verif_kani_mod_c15e.rs:155:5:\nverif: Int32 \u2192 Uint8 truncates"}]
// @replay package=boa_engine harness=h15e_cast_signed_unsigned tag=c15e flags=--no-default-features
/// Test generated for harness `builtins::typed_array::verif_kani_mod_c15e::h15e_cast_signed_unsigned` 
///
/// Check for `assertion`: ""verif: Uint8 → Int8 wraps""
///
/// # Warning
///
/// Concrete playback tests combined with stubs or contracts is highly
/// experimental, and subject to change.
///
/// The original harness has stubs which are not applied to this test.
/// This may cause a mismatch of non-deterministic values if the stub
/// creates any non-deterministic value.
/// The execution path may also differ, which can be used to refine the stub
/// logic.
#[test]
fn kani_concrete_playback_h15e_cast_signed_unsigned_14604656328052331490() {
    let concrete_vals: Vec<Vec<u8>> = vec![
        // 255
        vec![255],
        // -1
        vec![255, 255, 255, 255],
    ];
    kani::concrete_playback_run(concrete_vals, h15e_cast_signed_unsigned);
}
/// Test generated for harness `builtins::typed_array::verif_kani_mod_c15e::h15e_cast_signed_unsigned` 
///
/// Check for `assertion`: ""verif: Int32 → Uint32 wraps""
///
/// # Warning
///
/// Concrete playback tests combined with stubs or contracts is highly
/// experimental, and subject to change.
///
/// The original harness has stubs which are not applied to this test.
/// This may cause a mismatch of non-deterministic values if the stub
/// creates any non-deterministic value.
/// The execution path may also differ, which can be used to refine the stub
/// logic.
#[test]
fn kani_concrete_playback_h15e_cast_signed_unsigned_17833301795051870368() {
    let concrete_vals: Vec<Vec<u8>> = vec![
        // 0
        vec![0],
        // -2147483648
        vec![0, 0, 0, 128],
    ];
    kani::concrete_playback_run(concrete_vals, h15e_cast_signed_unsigned);
}
/// Test generated for harness `builtins::typed_array::verif_kani_mod_c15e::h15e_cast_signed_unsigned` 
///
/// Check for `assertion`: ""verif: Int32 → Uint8 truncates""
///
/// # Warning
///
/// Concrete playback tests combined with stubs or contracts is highly
/// experimental, and subject to change.
///
/// The original harness has stubs which are not applied to this test.
/// This may cause a mismatch of non-deterministic values if the stub
/// creates any non-deterministic value.
/// The execution path may also differ, which can be used to refine the stub
/// logic.
#[test]
fn kani_concrete_playback_h15e_cast_signed_unsigned_17318698871366675803() {
    let concrete_vals: Vec<Vec<u8>> = vec![
        // 127
        vec![127],
        // 536871041
        vec![129, 0, 0, 32],
    ];
    kani::concrete_playback_run(concrete_vals, h15e_cast_signed_unsigned);
}
