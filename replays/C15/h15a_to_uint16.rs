// replay for property C15, harness h15a_to_uint16 (package boa_engine, flags --no-default-features)
// failing checks: verif: integer element conversion is trunc(x) modulo 2^k
// native reproduction: [{"fn": "kani_concrete_playback_h15a_to_uint16_13084016293190249889", "dev_fails": true, "release_fails": null, "panic": "panicked at core/engine/src/value/verif_kani_mod_c15a.rs:90:1:\nverif: integer element conversion is trunc(x) modulo 2^k"}]
// @replay package=boa_engine harness=h15a_to_uint16 tag=c15a flags=--no-default-features
/// Test generated for harness `value::verif_kani_mod_c15a::h15a_to_uint16` 
///
/// Check for `assertion`: ""verif: integer element conversion is trunc(x) modulo 2^k""
///
/// # Warning
///
/// Concrete playback tests combined with stubs or contracts is highly
/// experimental, and subject to change.
///
/// The original harness has stubs which are not applied to this test.
/// This may cause a mismatch of non-deterministic values if the stub
/// creates any non-deterministic value.
/// The execution path may also differ, which can be used to refine the stub
/// logic.
#[test]
fn kani_concrete_playback_h15a_to_uint16_13084016293190249889() {
    let concrete_vals: Vec<Vec<u8>> = vec![
        // 0
        vec![0],
        // 9217742537320562687ul
        vec![255, 255, 255, 255, 255, 255, 235, 127],
    ];
    kani::concrete_playback_run(concrete_vals, h15a_to_uint16);
}
