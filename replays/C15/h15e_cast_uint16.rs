// replay for property C15, harness h15e_cast_uint16 (package boa_engine, flags --no-default-features)
// failing checks: verif: typed-array element cast is trunc(x) modulo 2^k
// native reproduction: [{"fn": "kani_concrete_playback_h15e_cast_uint16_6618870680610077311", "dev_fails": true, "release_fails": null, "panic": "panicked at core/engine/src/builtins/typed_array/verif_kani_mod_c15e.rs:56:1:\nverif: typed-array element cast is trunc(x) modulo 2^k"}]
// @replay package=boa_engine harness=h15e_cast_uint16 tag=c15e flags=--no-default-features
/// Test generated for harness `builtins::typed_array::verif_kani_mod_c15e::h15e_cast_uint16` 
///
/// Check for `assertion`: ""verif: typed-array element cast is trunc(x) modulo 2^k""
///
/// # Warning
///
/// Concrete playback tests combined with stubs or contracts is highly
/// experimental, and subject to change.
///
/// The original harness has stubs which are not applied to this test.
/// This may cause a mismatch of non-deterministic values if the stub
/// creates any non-deterministic value.
/// The execution path may also differ, which can be used to refine the stub
/// logic.
#[test]
fn kani_concrete_playback_h15e_cast_uint16_6618870680610077311() {
    let concrete_vals: Vec<Vec<u8>> = vec![
        // 9218868437227405312ul
        vec![0, 0, 0, 0, 0, 0, 240, 127],
    ];
    kani::concrete_playback_run(concrete_vals, h15e_cast_uint16);
}
