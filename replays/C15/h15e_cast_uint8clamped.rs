// replay for property C15, harness h15e_cast_uint8clamped (package boa_engine, flags --no-default-features)
// failing checks: verif: clamped element cast is ToUint8Clamp (ties to even)
// native reproduction: [{"fn": "kani_concrete_playback_h15e_cast_uint8clamped_12002664440567490902", "dev_fails": true, "release_fails": null, "panic": "panicked at core/engine/src/builtins/typed_array/verif_kani_mod_c15e.rs:84:13:\nverif: clamped element cast is ToUint8Clamp (ties to even)"}]
// @replay package=boa_engine harness=h15e_cast_uint8clamped tag=c15e flags=--no-default-features
/// Test generated for harness `builtins::typed_array::verif_kani_mod_c15e::h15e_cast_uint8clamped` 
///
/// Check for `assertion`: ""verif: clamped element cast is ToUint8Clamp (ties to even)""
///
/// # Warning
///
/// Concrete playback tests combined with stubs or contracts is highly
/// experimental, and subject to change.
///
/// The original harness has stubs which are not applied to this test.
/// This may cause a mismatch of non-deterministic values if the stub
/// creates any non-deterministic value.
/// The execution path may also differ, which can be used to refine the stub
/// logic.
#[test]
fn kani_concrete_playback_h15e_cast_uint8clamped_12002664440567490902() {
    let concrete_vals: Vec<Vec<u8>> = vec![
        // 4625337554797854720ul
        vec![0, 0, 0, 0, 0, 128, 48, 64],
    ];
    kani::concrete_playback_run(concrete_vals, h15e_cast_uint8clamped);
}
