// replay for property C11, harness h11a_eq_ord_hash_n3 (package boa_string, flags )
// failing checks: verif: cmp(utf16, latin1) is unit-lexicographic
// native reproduction: [{"fn": "kani_concrete_playback_h11a_eq_ord_hash_n3_2234544985506337241", "dev_fails": true, "release_fails": null, "panic": "panicked at core/string/src/verif_kani_str_c11a.rs:153:1:\nverif: cmp(utf16, latin1) is unit-lexicographic"}]
// @replay package=boa_string harness=h11a_eq_ord_hash_n3 tag=c11a flags=
/// Test generated for harness `str::verif_kani_str_c11a::h11a_eq_ord_hash_n3` 
///
/// Check for `assertion`: ""verif: cmp(utf16, latin1) is unit-lexicographic""
#[test]
fn kani_concrete_playback_h11a_eq_ord_hash_n3_2234544985506337241() {
    let concrete_vals: Vec<Vec<u8>> = vec![
        // 255
        vec![255],
        // 254
        vec![254],
        // 255
        vec![255],
        // 65535
        vec![255, 255],
        // 65535
        vec![255, 255],
        // 254
        vec![254, 0],
        // 2ul
        vec![2, 0, 0, 0, 0, 0, 0, 0],
        // 0ul
        vec![0, 0, 0, 0, 0, 0, 0, 0],
    ];
    kani::concrete_playback_run(concrete_vals, h11a_eq_ord_hash_n3);
}
