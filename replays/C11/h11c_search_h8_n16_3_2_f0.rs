// replay for property C11, harness h11c_search_h8_n16_3_2_f0 (package boa_string, flags )
// failing checks: verif: index_of is StringIndexOf on code units for every representation pair
// native reproduction: [{"fn": "kani_concrete_playback_h11c_search_h8_n16_3_2_f0_3122619885656105762", "dev_fails": true, "release_fails": null, "panic": "panicked at core/string/src/verif_kani_str_c11c.rs:82:1:\nverif: index_of is StringIndexOf on code units for every representation pair"}]
// @replay package=boa_string harness=h11c_search_h8_n16_3_2_f0 tag=c11c flags=
/// Test generated for harness `str::verif_kani_str_c11c::h11c_search_h8_n16_3_2_f0` 
///
/// Check for `assertion`: ""verif: index_of is StringIndexOf on code units for every representation pair""
#[test]
fn kani_concrete_playback_h11c_search_h8_n16_3_2_f0_3122619885656105762() {
    let concrete_vals: Vec<Vec<u8>> = vec![
        // 0
        vec![0],
        // 0
        vec![0],
        // 0
        vec![0],
        // 0
        vec![0],
        // 0
        vec![0],
    ];
    kani::concrete_playback_run(concrete_vals, h11c_search_h8_n16_3_2_f0);
}
