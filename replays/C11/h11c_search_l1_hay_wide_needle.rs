// replay for property C11, harness h11c_search_l1_hay_wide_needle (package boa_string, flags )
// failing checks: verif: latin1/utf16 index_of
// native reproduction: [{"fn": "kani_concrete_playback_h11c_search_l1_hay_wide_needle_11110493282480765007", "dev_fails": true, "release_fails": null, "panic": "panicked at core/string/src/verif_kani_str_c11c.rs:202:5:\nverif: latin1/utf16 index_of"}]
// @replay package=boa_string harness=h11c_search_l1_hay_wide_needle tag=c11c flags=
/// Test generated for harness `str::verif_kani_str_c11c::h11c_search_l1_hay_wide_needle` 
///
/// Check for `assertion`: ""verif: latin1/utf16 index_of""
#[test]
fn kani_concrete_playback_h11c_search_l1_hay_wide_needle_11110493282480765007() {
    let concrete_vals: Vec<Vec<u8>> = vec![
        // 0
        vec![0],
        // 0
        vec![0],
        // 0
        vec![0],
        // 0
        vec![0, 0],
    ];
    kani::concrete_playback_run(concrete_vals, h11c_search_l1_hay_wide_needle);
}
