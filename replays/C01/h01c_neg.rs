// replay for property C01, harness h01c_neg (package boa_engine, flags --no-default-features)
// failing checks: attempt to negate with overflow
// native reproduction: [{"fn": "kani_concrete_playback_h01c_neg_14524858925222179916", "dev_fails": true, "release_fails": null, "panic": "panicked at core/engine/src/value/operations.rs:504:52:\nattempt to negate with overflow"}]
// @replay package=boa_engine harness=h01c_neg tag=c01c flags=--no-default-features
/// Test generated for harness `value::operations::verif_kani_operations_c01c::h01c_neg` 
///
/// Check for `assertion`: "attempt to negate with overflow"
///
/// # Warning
///
/// Concrete playback tests combined with stubs or contracts is highly
/// experimental, and subject to change.
///
/// The original harness has stubs which are not applied to this test.
/// This may cause a mismatch of non-deterministic values if the stub
/// creates any non-deterministic value.
/// The execution path may also differ, which can be used to refine the stub
/// logic.
#[test]
fn kani_concrete_playback_h01c_neg_14524858925222179916() {
    let concrete_vals: Vec<Vec<u8>> = vec![
        // 1
        vec![1],
        // -2147483648
        vec![0, 0, 0, 128],
        // 9221683186994511871ul
        vec![255, 255, 255, 255, 255, 255, 249, 127],
    ];
    kani::concrete_playback_run(concrete_vals, h01c_neg);
}
