// replay for property C01, harness h01a_bitwise_shift (package boa_engine, flags --no-default-features)
// failing checks: verif: int32 << int32; verif: int32 >> int32
// native reproduction: [{"fn": "kani_concrete_playback_h01a_bitwise_shift_14796708765388681163", "dev_fails": true, "release_fails": null, "panic": "panicked at core/engine/src/value/verif_kani_operations_c01a.rs:316:5:\nverif: int32 << int32"}, {"fn": "kani_concrete_playback_h01a_bitwise_shift_12711440446120304840", "dev_fails": true, "release_fails": null, "panic": "panicked at core/engine/src/value/verif_kani_operations_c01a.rs:319:5:\nverif: int32 >> int32"}]
// @replay package=boa_engine harness=h01a_bitwise_shift tag=c01a flags=--no-default-features
/// Test generated for harness `value::operations::verif_kani_operations_c01a::h01a_bitwise_shift` 
///
/// Check for `assertion`: ""verif: int32 << int32""
///
/// # Warning
///
/// Concrete playback tests combined with stubs or contracts is highly
/// experimental, and subject to change.
///
/// The original harness has stubs which are not applied to this test.
/// This may cause a mismatch of non-deterministic values if the stub
/// creates any non-deterministic value.
/// The execution path may also differ, which can be used to refine the stub
/// logic.
#[test]
fn kani_concrete_playback_h01a_bitwise_shift_14796708765388681163() {
    let concrete_vals: Vec<Vec<u8>> = vec![
        // 16793600
        vec![0, 64, 0, 1],
        // -2113929205
        vec![11, 0, 0, 130],
    ];
    kani::concrete_playback_run(concrete_vals, h01a_bitwise_shift);
}
/// Test generated for harness `value::operations::verif_kani_operations_c01a::h01a_bitwise_shift` 
///
/// Check for `assertion`: ""verif: int32 >> int32""
///
/// # Warning
///
/// Concrete playback tests combined with stubs or contracts is highly
/// experimental, and subject to change.
///
/// The original harness has stubs which are not applied to this test.
/// This may cause a mismatch of non-deterministic values if the stub
/// creates any non-deterministic value.
/// The execution path may also differ, which can be used to refine the stub
/// logic.
#[test]
fn kani_concrete_playback_h01a_bitwise_shift_12711440446120304840() {
    let concrete_vals: Vec<Vec<u8>> = vec![
        // 301989888
        vec![0, 0, 0, 18],
        // -2113929205
        vec![11, 0, 0, 130],
    ];
    kani::concrete_playback_run(concrete_vals, h01a_bitwise_shift);
}
