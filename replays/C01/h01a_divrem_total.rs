// replay for property C01, harness h01a_divrem_total (package boa_engine, flags --no-default-features)
// failing checks: NaN on division; attempt to calculate the remainder with overflow
// native reproduction: [{"fn": "kani_concrete_playback_h01a_divrem_total_11998705824001047918", "dev_fails": true, "release_fails": null, "panic": "panicked at core/engine/src/value/operations.rs:757:31:\nattempt to calculate the remainder with overflow"}]
// @replay package=boa_engine harness=h01a_divrem_total tag=c01a flags=--no-default-features
/// Test generated for harness `value::operations::verif_kani_operations_c01a::h01a_divrem_total` 
///
/// Check for `assertion`: "attempt to calculate the remainder with overflow"
///
/// # Warning
///
/// Concrete playback tests combined with stubs or contracts is highly
/// experimental, and subject to change.
///
/// The original harness has stubs which are not applied to this test.
/// This may cause a mismatch of non-deterministic values if the stub
/// creates any non-deterministic value.
/// The execution path may also differ, which can be used to refine the stub
/// logic.
#[test]
fn kani_concrete_playback_h01a_divrem_total_11998705824001047918() {
    let concrete_vals: Vec<Vec<u8>> = vec![
        // -2147483648
        vec![0, 0, 0, 128],
        // -1
        vec![255, 255, 255, 255],
    ];
    kani::concrete_playback_run(concrete_vals, h01a_divrem_total);
}
