// replay for property C01, harness h01a_divrem_by_min (package boa_engine, flags --no-default-features)
// failing checks: verif: int32 / const is an Integer32 only when exact, in range and not -0
// native reproduction: [{"fn": "kani_concrete_playback_h01a_divrem_by_min_11435730648664191755", "dev_fails": true, "release_fails": null, "panic": "panicked at core/engine/src/value/verif_kani_operations_c01a.rs:211:22:\nverif: int32 / const is an Integer32 only when exact, in range and not -0"}]
// @replay package=boa_engine harness=h01a_divrem_by_min tag=c01a flags=--no-default-features
/// Test generated for harness `value::operations::verif_kani_operations_c01a::h01a_divrem_by_min` 
///
/// Check for `assertion`: ""verif: int32 / const is an Integer32 only when exact, in range and not -0""
///
/// # Warning
///
/// Concrete playback tests combined with stubs or contracts is highly
/// experimental, and subject to change.
///
/// The original harness has stubs which are not applied to this test.
/// This may cause a mismatch of non-deterministic values if the stub
/// creates any non-deterministic value.
/// The execution path may also differ, which can be used to refine the stub
/// logic.
#[test]
fn kani_concrete_playback_h01a_divrem_by_min_11435730648664191755() {
    let concrete_vals: Vec<Vec<u8>> = vec![
        // 0
        vec![0, 0, 0, 0],
    ];
    kani::concrete_playback_run(concrete_vals, h01a_divrem_by_min);
}
