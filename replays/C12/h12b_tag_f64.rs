// replay for property C12, harness h12b_tag_f64 (package boa_engine, flags --no-default-features)
// failing checks: verif: every NaN is canonicalised; verif: tag_f64 always yields a float kind
// native reproduction: [{"fn": "kani_concrete_playback_h12b_tag_f64_14579026994970717119", "dev_fails": true, "release_fails": null, "panic": "panicked at core/engine/src/value/inner/verif_kani_nan_boxed_c12b.rs:72:5:\nverif: tag_f64 always yields a float kind"}, {"fn": "kani_concrete_playback_h12b_tag_f64_10814205143040119006", "dev_fails": true, "release_fails": null, "panic": "panicked at core/engine/src/value/inner/verif_kani_nan_boxed_c12b.rs:80:9:\nverif: every NaN is canonicalised"}]
// @replay package=boa_engine harness=h12b_tag_f64 tag=c12b flags=--no-default-features
/// Test generated for harness `value::inner::nan_boxed::verif_kani_nan_boxed_c12b::h12b_tag_f64` 
///
/// Check for `assertion`: ""verif: tag_f64 always yields a float kind""
#[test]
fn kani_concrete_playback_h12b_tag_f64_14579026994970717119() {
    let concrete_vals: Vec<Vec<u8>> = vec![
        // 9219994337134247936ul
        vec![0, 0, 0, 0, 0, 0, 244, 127],
    ];
    kani::concrete_playback_run(concrete_vals, h12b_tag_f64);
}
/// Test generated for harness `value::inner::nan_boxed::verif_kani_nan_boxed_c12b::h12b_tag_f64` 
///
/// Check for `assertion`: ""verif: every NaN is canonicalised""
#[test]
fn kani_concrete_playback_h12b_tag_f64_10814205143040119006() {
    let concrete_vals: Vec<Vec<u8>> = vec![
        // 18442240474082181121ul
        vec![1, 0, 0, 0, 0, 0, 240, 255],
    ];
    kani::concrete_playback_run(concrete_vals, h12b_tag_f64);
}
