// replay for property C12, harness h12a_f64_kind (package boa_engine, flags --no-default-features)
// failing checks: verif: a Number is_number
// native reproduction: [{"fn": "kani_concrete_playback_h12a_f64_kind_9283738296896258556", "dev_fails": true, "release_fails": null, "panic": "panicked at core/engine/src/value/verif_kani_mod_c12a.rs:11:5:\nverif: a Number is_number"}]
// @replay package=boa_engine harness=h12a_f64_kind tag=c12a flags=--no-default-features
/// Test generated for harness `value::verif_kani_mod_c12a::h12a_f64_kind` 
///
/// Check for `assertion`: ""verif: a Number is_number""
///
/// # Warning
///
/// Concrete playback tests combined with stubs or contracts is highly
/// experimental, and subject to change.
///
/// The original harness has stubs which are not applied to this test.
/// This may cause a mismatch of non-deterministic values if the stub
/// creates any non-deterministic value.
/// The execution path may also differ, which can be used to refine the stub
/// logic.
#[test]
fn kani_concrete_playback_h12a_f64_kind_9283738296896258556() {
    let concrete_vals: Vec<Vec<u8>> = vec![
        // 9219994337134247936ul
        vec![0, 0, 0, 0, 0, 0, 244, 127],
    ];
    kani::concrete_playback_run(concrete_vals, h12a_f64_kind);
}
