// replay for property C12, harness h12c_elem_f64 (package boa_engine, flags --no-default-features)
// failing checks: verif: Float64 element value is preserved (NaN stays NaN, -0 stays -0)
// native reproduction: [{"fn": "kani_concrete_playback_h12c_elem_f64_10278181720516318260", "dev_fails": true, "release_fails": null, "panic": "panicked at core/engine/src/builtins/typed_array/verif_kani_mod_c12c.rs:80:5:\nverif: Float64 element value is preserved (NaN stays NaN, -0 stays -0)"}]
// @replay package=boa_engine harness=h12c_elem_f64 tag=c12c flags=--no-default-features
/// Test generated for harness `builtins::typed_array::verif_kani_mod_c12c::h12c_elem_f64` 
///
/// Check for `assertion`: ""verif: Float64 element value is preserved (NaN stays NaN, -0 stays -0)""
///
/// # Warning
///
/// Concrete playback tests combined with stubs or contracts is highly
/// experimental, and subject to change.
///
/// The original harness has stubs which are not applied to this test.
/// This may cause a mismatch of non-deterministic values if the stub
/// creates any non-deterministic value.
/// The execution path may also differ, which can be used to refine the stub
/// logic.
#[test]
fn kani_concrete_playback_h12c_elem_f64_10278181720516318260() {
    let concrete_vals: Vec<Vec<u8>> = vec![
        // 9223372036854775808ul
        vec![0, 0, 0, 0, 0, 0, 0, 128],
    ];
    kani::concrete_playback_run(concrete_vals, h12c_elem_f64);
}
