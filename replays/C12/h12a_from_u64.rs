// replay for property C12, harness h12a_from_u64 (package boa_engine, flags --no-default-features --features jsvalue-enum)
// failing checks: verif: integers that do not fit are stored as Float64
// native reproduction: [{"fn": "kani_concrete_playback_h12a_from_u64_5346100446636662589", "dev_fails": true, "release_fails": null, "panic": "panicked at core/engine/src/value/verif_kani_mod_c12a.rs:251:1:\nverif: integers that do not fit are stored as Float64"}]
// @replay package=boa_engine harness=h12a_from_u64 tag=c12a flags=--no-default-features,--features,jsvalue-enum
/// Test generated for harness `value::verif_kani_mod_c12a::h12a_from_u64` 
///
/// Check for `assertion`: ""verif: integers that do not fit are stored as Float64""
///
/// # Warning
///
/// Concrete playback tests combined with stubs or contracts is highly
/// experimental, and subject to change.
///
/// The original harness has stubs which are not applied to this test.
/// This may cause a mismatch of non-deterministic values if the stub
/// creates any non-deterministic value.
/// The execution path may also differ, which can be used to refine the stub
/// logic.
#[test]
fn kani_concrete_playback_h12a_from_u64_5346100446636662589() {
    let concrete_vals: Vec<Vec<u8>> = vec![
        // 18446744073709548545ul
        vec![1, 244, 255, 255, 255, 255, 255, 255],
    ];
    kani::concrete_playback_run(concrete_vals, h12a_from_u64);
}
