"""Corpus for C03(b): (1) JS string literals of the repository's own tests, (2) a deterministic grammar
enumeration that crosses binding kinds x assignment forms x control-flow contexts, (3) VERIF_SEED-seeded
deeper samples of the same grammar.  The corpus is the PROGRAM quantifier of C03 and is not symbolic."""
import os
import random
import re

REPO = os.environ.get("VERIF_REPO", "/repo")


def repo_snippets(limit=None):
    out = []
    seen = set()
    roots = [os.path.join(REPO, "core/engine/src"), os.path.join(REPO, "core/engine/tests"),
             os.path.join(REPO, "core/parser/src"), os.path.join(REPO, "core/runtime/src")]
    rx_raw = re.compile(r'r(#+)"(.*?)"\1', re.S)
    rx_str = re.compile(r'"((?:[^"\\]|\\.)*)"')
    for root in roots:
        for d, _ds, files in os.walk(root):
            for fn in sorted(files):
                if not fn.endswith(".rs") or "test" not in (d + "/" + fn):
                    continue
                try:
                    src = open(os.path.join(d, fn), encoding="utf-8").read()
                except Exception:
                    continue
                for m in rx_raw.finditer(src):
                    s = m.group(2)
                    if 2 < len(s) < 4000 and s not in seen:
                        seen.add(s)
                        out.append(s)
                for m in rx_str.finditer(src):
                    s = m.group(1)
                    if len(s) < 6 or len(s) > 600 or "\\u{" in s:
                        continue
                    try:
                        s2 = bytes(s, "utf-8").decode("unicode_escape") if "\\" in s else s
                    except Exception:
                        continue
                    if not re.search(r"[=;(){}\[\]]", s2):
                        continue
                    if s2 not in seen:
                        seen.add(s2)
                        out.append(s2)
    if limit:
        out = out[:limit]
    return out


# ---- grammar -------------------------------------------------------------------------------------------

TARGETS = ["g", "l", "c.p", "c[k]", "o.a.b"]          # global var, let, property, computed, nested
ASSIGN_OPS = ["=", "+=", "??=", "||=", "&&=", "**=", ">>>="]
RHS = ["1", "f()", "(yield_free())", "k ?? 2", "g2 = 3", "[1,2]", "{a:1}", "x => x", "(g3 ||= 4)", "l2 ??= 5", "typeof u", "`t${k}`"]
WRAP_EXPR = ["%s", "'x' + (%s)", "v = 'x' + (%s)", "h(%s, %s)", "[%s]", "(%s) ? 1 : 2", "c?.p?.[%s]", "!(%s)",
             "(%s, 0)", "w = (%s) || (%s)", "new K(%s)", "o = {[%s]: 1}", "`${%s}`", "(%s)++ || 0" ]
CTX_STMT = [
    "%s;",
    "if (k) { %s; } else { %s; }",
    "for (let i = 0; i < 2; i++) { %s; if (i) continue; }",
    "while (k--) { %s; if (k) break; }",
    "try { %s; } catch (e) { %s; } finally { %s; }",
    "try { %s; } finally { k = 0; }",
    "L: for (var q in o) { %s; continue L; }",
    "for (const z of [1,2]) { %s; }",
    "switch (k) { case 1: %s; break; default: %s; }",
    "with (o) { %s; }",
    "{ let b = 1; (function(){ return b; }); %s; }",
    "do { %s; } while (k);",
    "label: { %s; break label; }",
]
CTX_FUNC = [
    "%s",
    "function F() { %s }",
    "function F(a = (%E), ...r) { %s }",
    "function* G() { %s; yield 1; %s }",
    "async function A() { %s; await 1; %s }",
    "async function* AG() { %s; yield 1; }",
    "var af = (a, b) => { %s };",
    "class C { m() { %s } static s() { %s } #p = 1; get x() { return this.#p; } }",
    "class D extends B { constructor() { super(); %s } }",
    "(function () { 'use strict'; %s })();",
    "function outer() { let cap = 1; function inner() { cap++; %s } return inner; }",
    "var ev = function () { eval('1'); %s };",
]
PRELUDE = "var g, g2, g3, w, v, o = {a:{}}, c = {}, k = 1, u; let l, l2; "


def fill(tpl, gen):
    out = tpl
    while "%s" in out:
        out = out.replace("%s", gen(), 1)
    return out


def enumerate_programs(depth):
    """Deterministic enumeration; depth 1..3 controls how many contexts are crossed."""
    progs = []
    exprs = []
    for t in TARGETS:
        for op in ASSIGN_OPS:
            for r in RHS[: (4 if depth < 2 else len(RHS))]:
                exprs.append("%s %s %s" % (t, op, r))
    exprs += ["delete c.p", "g++", "--l", "c.p++", "[g, l] = [1, 2]", "({a: g, ...l} = o)", "[g = 1, ...l] = [2]",
              "f?.(g = 1)", "g = l = k", "new.target", "a?.b.c(++g)", "k in o", "g = yield_free`t${l}`"]
    wrapped = []
    for i, e in enumerate(exprs):
        wraps = WRAP_EXPR if depth >= 2 else WRAP_EXPR[:4]
        for j, w in enumerate(wraps):
            if depth < 3 and (i + j) % 3 != 0 and j > 2:
                continue
            wrapped.append(w.replace("%s", e))
    stmts = []
    for i, e in enumerate(wrapped):
        ctxs = CTX_STMT if depth >= 2 else CTX_STMT[:6]
        for j, c in enumerate(ctxs):
            if depth < 3 and (i + j) % (5 if depth == 1 else 3) != 0:
                continue
            stmts.append(c.replace("%s", e))
    for i, s in enumerate(stmts):
        fcs = CTX_FUNC
        for j, fc in enumerate(fcs):
            if (i + j) % (7 if depth == 1 else 4 if depth == 2 else 2) != 0 and j > 0:
                continue
            body = fc.replace("%E", "g ??= 1").replace("%s", s)
            progs.append(PRELUDE + body)
    return progs


def seeded_programs(seed, n):
    rnd = random.Random(seed)
    progs = []

    def expr(d):
        if d <= 0:
            return rnd.choice(["1", "g", "l", "k", "f()", "c.p", "u"])
        r = rnd.random()
        if r < 0.45:
            return "%s %s %s" % (rnd.choice(TARGETS), rnd.choice(ASSIGN_OPS), expr(d - 1))
        if r < 0.8:
            return fill(rnd.choice(WRAP_EXPR), lambda: expr(d - 1))
        return rnd.choice(RHS)

    def stmt(d):
        if d <= 0:
            return expr(2) + ";"
        return fill(rnd.choice(CTX_STMT), lambda: rnd.choice([expr(2), stmt(d - 1).rstrip(";")]) if rnd.random() < 0.7 else expr(1))

    for _ in range(n):
        body = fill(rnd.choice(CTX_FUNC).replace("%E", expr(1)), lambda: stmt(rnd.randint(0, 2)))
        progs.append(PRELUDE + body)
    return progs


# ---- scope x exit family ----------------------------------------------------------------------------------
# Every construct that opens a runtime environment (a lexical declaration captured by a closure, `with`,
# catch parameter, class with private names) crossed with every way of leaving it, nested two deep, inside
# plain / generator / async functions, loops, labels and try/finally.

SCOPES = [
    "{ let x = 1; cl(() => x); %s }",
    "switch (k) { case 1: let x = 1; cl(() => x); %s; case 2: %s; default: cl(2); }",
    "switch (k) { case 1: %s; default: let y = 2; cl(() => y); }",
    "for (let x = 0; x < 2; x++) { cl(() => x); %s }",
    "for (let x of a) { cl(() => x); %s }",
    "for (const x in o) { cl(() => x); %s }",
    "for (let x = 0, z = cl(() => x); x < 2; x++) { %s }",
    "try { thrower(); %s } catch (x) { cl(() => x); %s }",
    "try { let x = 1; cl(() => x); %s } finally { let y = 2; cl(() => y); }",
    "try { %s } catch ({ message: x }) { cl(() => x); } finally { %s }",
    "with (o) { %s }",
    "with (o) { let x = 1; cl(() => x); %s }",
    "{ class C { #p = 1; static s = cl(() => C); m() { return this.#p; } } %s }",
    "{ function inner() { return inner; } let x = 1; cl(() => x); %s }",
    "while (k--) { let x = k; cl(() => x); %s }",
    "do { const x = 1; cl(() => x); %s } while (k--);",
    "if (k) { let x = 1; cl(() => x); %s } else { let y = 2; cl(() => y); %s }",
    # exits from inside catch / finally blocks that own an environment
    "try { thrower(); } finally { let y = 2; cl(() => y); %s }",
    "try { cl(1); } catch (e) { let y = 2; cl(() => y + e); %s } finally { cl(3); }",
    "try { try { thrower(); } finally { let y = 2; cl(() => y); %s } } finally { cl(4); }",
    "try { cl(1); } finally { for (let z of a) { cl(() => z); %s } }",
    "try { cl(1); } finally { with (o) { %s } }",
    "try { cl(1); } finally { switch (k) { case 1: let q = 1; cl(() => q); %s; default: cl(2); } }",
]
EXITS = ["", "break;", "continue;", "return 1;", "throw 1;", "break L;", "continue L;", "if (k) break; else continue;",
         "yield 1;", "await 1;", "return cl(() => 1);", "k = k ?? 1;"]
OUTERS = [
    "function f(a, o, k) { L: for (;;) { %s } }",
    "function* f(a, o, k) { L: for (const q of a) { %s } }",
    "async function f(a, o, k) { L: while (k) { %s } }",
    "async function* f(a, o, k) { L: do { %s } while (k); }",
    "function f(a, o, k) { L: for (let w = 0; w < 2; w++) { cl(() => w); try { %s } finally { cl(3); } } }",
    "function f(a, o, k) { L: for (var w in o) { try { %s } catch (e) { cl(() => e); continue L; } finally { k++; } } }",
    "var f = (a, o, k) => { L: { M: for (;;) { %s } } };",
    "function f(a, o, k = cl(() => a)) { L: for (;;) { switch (k) { case 0: %s } } }",
    "class K { static m(a, o, k) { L: for (;;) { %s } } }",
    "function f(a, o, k) { 'use strict'; L: for (;;) { with_free: { %s } } }",
]


def scope_programs(depth):
    progs = []

    def emit(outer, body):
        progs.append("var cl = x => x, thrower = () => { throw 1; }; " + outer.replace("%s", body))

    for oi, outer in enumerate(OUTERS):
        for si, sc in enumerate(SCOPES):
            for ei, ex in enumerate(EXITS):
                if depth < 2 and (oi + si + ei) % 3 != 0 and oi > 0:
                    continue
                emit(outer, sc.replace("%s", ex))
    if depth >= 2:
        # two nested scopes, exits in the inner one
        for oi, outer in enumerate(OUTERS[: (3 if depth < 3 else len(OUTERS))]):
            for si, s1 in enumerate(SCOPES):
                for sj, s2 in enumerate(SCOPES):
                    for ei, ex in enumerate(EXITS[:8]):
                        if depth < 3 and (oi + si + sj + ei) % 4 != 0:
                            continue
                        emit(outer, s1.replace("%s", s2.replace("%s", ex)))
    return progs


def seeded_scope_programs(seed, n):
    """Random nestings (depth ≤ 3, sequences of two) of the scope forms with random exits in every hole."""
    rnd = random.Random(seed * 7919 + 13)
    progs = []

    def hole(d):
        r = rnd.random()
        if d <= 0 or r < 0.35:
            return rnd.choice(EXITS)
        if r < 0.8:
            return fill(rnd.choice(SCOPES), lambda: hole(d - 1))
        return fill(rnd.choice(SCOPES), lambda: hole(d - 1)) + " " + fill(rnd.choice(SCOPES), lambda: hole(d - 1))

    for _ in range(n):
        outer = rnd.choice(OUTERS)
        progs.append("var cl = x => x, thrower = () => { throw 1; }; " + fill(outer, lambda: hole(rnd.randint(1, 3))))
    return progs
