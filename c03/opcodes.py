"""Parse the `generate_opcodes! { ... }` invocation of the CURRENT source tree."""
import os
import re

REPO = os.environ.get("VERIF_REPO", "/repo")


def parse(src_path=None):
    src = open(src_path or os.path.join(REPO, "core/engine/src/vm/opcode/mod.rs")).read()
    i = src.index("\ngenerate_opcodes! {")
    j = src.index("{", i)
    depth, k = 0, j
    while True:
        c = src[k]
        if c == "{":
            depth += 1
        elif c == "}":
            depth -= 1
            if depth == 0:
                break
        k += 1
    body = src[j + 1:k]
    # strip comments
    body = re.sub(r"//[^\n]*", "", body)
    ops = []
    pos = 0
    tok = re.compile(r"\s*([A-Za-z_][A-Za-z0-9_]*)\s*(\{([^{}]*)\})?\s*(=>\s*([A-Za-z_][A-Za-z0-9_]*))?\s*,?")
    while pos < len(body):
        m = tok.match(body, pos)
        if not m or m.end() == pos:
            if body[pos:].strip() == "":
                break
            raise SystemExit("INCONCLUSIVE: cannot parse generate_opcodes! near: " + body[pos:pos + 80])
        name, fields_src, mapping = m.group(1), m.group(3), m.group(5)
        fields = []
        if fields_src:
            for f in fields_src.split(","):
                f = f.strip()
                if not f:
                    continue
                fn, ft = f.split(":", 1)
                fields.append((fn.strip(), re.sub(r"\s+", "", ft)))
        ops.append({"name": name, "fields": fields, "reserved": mapping is not None, "index": len(ops)})
        pos = m.end()
    if len(ops) != 256:
        raise SystemExit("INCONCLUSIVE: expected 256 opcodes, parsed %d" % len(ops))
    return ops


def snake(name):
    s = re.sub(r"(?<=[a-z0-9])([A-Z])", r"_\1", name)
    s = re.sub(r"([A-Z]+)([A-Z][a-z])", r"\1_\2", s)
    return s.lower()


if __name__ == "__main__":
    ops = parse()
    real = [o for o in ops if not o["reserved"]]
    print(len(ops), len(real))
    shapes = {}
    for o in real:
        shapes.setdefault(tuple(t for _, t in o["fields"]), []).append(o["name"])
    for s, n in sorted(shapes.items(), key=lambda x: -len(x[1])):
        print(len(n), s, n[:3])
