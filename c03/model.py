"""Hand model of the VM handlers' effects used by C03(b) (the TRUSTED BASE of that check).

DELTA:   opcode -> (d_env, d_bind)  stack effects on the frame's environment chain and on the pending
         binding-reference stack.  Opcodes not listed have effect (0, 0).
FLOW:    control-flow class of each opcode.
OPERAND_TABLE: (opcode, field) -> which table bounds the operand.  field '*' = any opcode.

sync_check() compares the non-zero rows of DELTA with the set of handler source files that actually
touch `environments.push*/pop*` and `binding_stack.push/pop`; a drift makes the check INCONCLUSIVE
(never a VIOLATION).
"""
import os
import re

REPO = os.environ.get("VERIF_REPO", "/repo")

DELTA = {
    "PushScope": (1, 0),
    "PushObjectEnvironment": (1, 0),
    "PopEnvironment": (-1, 0),
    "GetLocator": (0, 1),
    "GetNameAndLocator": (0, 1),
    "SetNameByLocator": (0, -1),
}

# terminators: no fall-through successor
TERMINATORS = {
    "Return", "Throw", "ReThrow", "ThrowNewTypeError", "ThrowNewReferenceError", "ThrowMutateImmutable",
    "DeleteSuperThrow", "Jump",
}
# unconditional / conditional jumps with a single `address` operand (conditional ones also fall through)
JUMPS = {
    "Jump", "JumpIfTrue", "JumpIfFalse", "JumpIfNotUndefined", "JumpIfNullOrUndefined", "JumpIfNotLessThan",
    "JumpIfNotLessThanOrEqual", "JumpIfNotGreaterThan", "JumpIfNotGreaterThanOrEqual", "JumpIfNotEqual",
    "LogicalAnd", "LogicalOr", "Coalesce", "Case", "TemplateLookup",
}

# which table an operand indexes.  'reg' = register file, 'const:S' string constant, 'const:F' function,
# 'const:Sc' scope, 'const:SB' string or bigint, 'bind' = bindings, 'ic' = inline caches, None = not an index
OPERAND_TABLE = {
    ("*", "binding_index"): "bind",
    ("*", "ic_index"): "ic",
    ("*", "name_index"): "const:S",
    ("*", "scope_index"): "const:Sc",
    ("*", "pattern_index"): "const:S",
    ("*", "flags_index"): "const:S",
    ("*", "message"): "const:S",
    ("StoreLiteral", "index"): "const:SB",
    ("GetFunction", "index"): "const:F",
    ("InPrivate", "index"): "const:S",
    ("ThrowMutateImmutable", "index"): "const:S",
    ("ThisForObjectEnvironmentName", "index"): "bind",
    ("GetArgument", "index"): None,
    ("JumpTable", "index"): "reg",
    ("PushPrivateEnvironment", "name_indices"): "const:S",
    ("*", "argument_count"): None,
    ("*", "is_anonymous_function"): None,
    ("*", "done"): None,
    ("*", "prefix"): None,
    ("*", "phase"): None,
    ("*", "site"): None,
    ("*", "value:imm"): None,
    ("TemplateCreate", "values"): None,
}


def sync_check():
    """Return list of problems (empty = the hand table matches the handler sources)."""
    base = os.path.join(REPO, "core/engine/src/vm/opcode")
    env_push, env_pop, bind_push, bind_pop = set(), set(), set(), set()
    for root, _d, files in os.walk(base):
        for fn in files:
            if not fn.endswith(".rs"):
                continue
            src = open(os.path.join(root, fn)).read()
            # split per `impl X {` block
            for m in re.finditer(r"(?s)\nimpl (\w+) \{(.*?)\n\}\n", src):
                name, body = m.group(1), m.group(2)
                if re.search(r"environments\s*\.\s*push_(lexical|object|function|declarative)|environments\s*\.\s*push\(", body):
                    env_push.add(name)
                if re.search(r"environments\s*\.\s*pop\(\)", body):
                    env_pop.add(name)
                if re.search(r"binding_stack\s*\.\s*push\(", body):
                    bind_push.add(name)
                if re.search(r"binding_stack\s*\.\s*pop\(\)", body, re.S) or re.search(r"\.binding_stack\s*\n?\s*\.pop\(\)", body):
                    bind_pop.add(name)
    want = {
        "env_push": {k for k, v in DELTA.items() if v[0] > 0},
        "env_pop": {k for k, v in DELTA.items() if v[0] < 0},
        "bind_push": {k for k, v in DELTA.items() if v[1] > 0},
        "bind_pop": {k for k, v in DELTA.items() if v[1] < 0},
    }
    got = {"env_push": env_push, "env_pop": env_pop, "bind_push": bind_push, "bind_pop": bind_pop}
    probs = []
    for k in want:
        if want[k] != got[k]:
            probs.append("%s: model %s, handler sources %s" % (k, sorted(want[k]), sorted(got[k])))
    return probs


if __name__ == "__main__":
    print(sync_check() or "in sync")


def cannot_throw():
    """Opcodes whose handler `operation` has NO result type (returns `()`): such a handler has no error path,
    so no exceptional edge leaves the instruction.  Derived from the CURRENT handler sources on every run;
    anything not positively identified is treated as may-throw (conservative)."""
    base = os.path.join(REPO, "core/engine/src/vm/opcode")
    out = set()
    for root, _d, files in os.walk(base):
        for fn in files:
            if not fn.endswith(".rs"):
                continue
            src = open(os.path.join(root, fn)).read()
            for m in re.finditer(r"(?s)\nimpl (\w+) \{(.*?)\n\}\n", src):
                name, body = m.group(1), m.group(2)
                mm = re.search(r"(?s)fn operation\s*\((.*?)\)\s*(->\s*([^{]+?))?\s*\{", body)
                if not mm:
                    continue
                ret = (mm.group(3) or "").strip()
                if ret == "" or ret == "()":
                    # must also not raise through the context by hand
                    if "pending_exception" in body or "handle_throw" in body or "handle_error" in body:
                        continue
                    out.add(name)
    return out
