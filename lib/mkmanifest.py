"""Regenerate /verif/MANIFEST.json from lib/props.py (single source of truth)."""
import json, os, sys
sys.path.insert(0, os.path.dirname(os.path.abspath(__file__)))
import props
ids = [json.loads(l)['id'] for l in open('/verif/properties.jsonl')]
checks = []
for pid in ids:
    if pid not in props.PROPS:
        continue
    c = props.PROPS[pid]
    m = c["manifest"]
    checks.append({
        "property_id": pid,
        "quick_cmd": "./check %s --tier quick" % pid,
        "thorough_cmd": "./check %s --tier thorough" % pid,
        "evidence_file": "/verif/evidence/%s.json" % pid,
        "replay_cmd_template": "./check %s --replay {path}" % pid,
        "engine": m.get("engine", "kani"),
        "level_claimed": {"category": c.get("level", "model_checking"), "text": m["text"], "design_ref": m.get("design_ref", "DESIGN.md §4")},
        "level_note": m["note"],
        "technique": m["technique"],
    })
na = [{"property_id": pid, "reason": props.NA.get(pid, "check under construction in this session: designed in DESIGN.md §4, not yet registered")} for pid in ids if pid not in props.PROPS]
man = {
    "version": 1,
    "setup_cmd": "./setup.sh",
    "hooks": {
        "guard": "cfg(kani) — exists only inside the overlay copy /verif/.work/overlay; /repo carries no hook code",
        "enable": "each check rsyncs /repo/{core,utils} into /verif/.work/overlay, appends `#[cfg(kani)] #[path=..] mod verif_kani_*;` child modules to the target source files there and runs `cargo kani` on the overlay (DESIGN.md §2.1)",
        "baseline_off_cmd": "cd /repo && cargo test --workspace --no-fail-fast --offline",
        "source_commits": [],
        "add_only": True,
    },
    "engines": props.ENGINES,
    "checks": checks,
    "not_applicable": na,
    "notes": props.NOTES,
}
json.dump(man, open('/verif/MANIFEST.json', 'w'), indent=1, ensure_ascii=False)
print("claimed:", [c["property_id"] for c in checks])
