"""Engine S for C03(b): per compiled body, an SMT instance whose satisfiability is equivalent to
"operands are in range, targets are instruction starts, and env/bind depths agree on ALL CFG paths"."""
import json
import os
import subprocess
import sys
import time

VERIF = os.path.dirname(os.path.dirname(os.path.abspath(__file__)))
sys.path.insert(0, os.path.join(VERIF, "c03"))
import corpus  # noqa: E402
import gen_dump  # noqa: E402
import model  # noqa: E402
import overlay  # noqa: E402
from overlay import WORK, OVERLAY, REPO  # noqa: E402

TARGET_NATIVE = os.path.join(WORK, "target-native")


def build_driver():
    extra = {
        "core/engine/src/vm/code_block.rs::native_c03dump": gen_dump.generate().encode(),
        "core/engine/src/optimizer/pass/strength_reduction.rs::native_c05probe": open(os.path.join(VERIF, "c05/probe.rs"), "rb").read(),
        "utils/verif_c03/Cargo.toml": open(os.path.join(VERIF, "c03/driver/Cargo.toml"), "rb").read(),
        "utils/verif_c03/src/main.rs": open(os.path.join(VERIF, "c03/driver/src/main.rs"), "rb").read(),
    }
    overlay.build(selected_tags=[], extra_files=extra)
    env = dict(os.environ, CARGO_NET_OFFLINE="true", CARGO_TARGET_DIR=TARGET_NATIVE, CARGO_TERM_COLOR="never")
    log = os.path.join(WORK, "c03-build.log")
    t0 = time.time()
    with open(log, "w") as lf:
        rc = subprocess.call(["cargo", "build", "--offline", "-p", "verif_c03"], cwd=OVERLAY, env=env,
                             stdout=lf, stderr=subprocess.STDOUT)
    if rc != 0:
        return None, "driver build failed (see %s): %s" % (log, _last_error(log)), time.time() - t0
    return os.path.join(TARGET_NATIVE, "debug", "verif_c03"), None, time.time() - t0


def _last_error(log):
    txt = open(log, errors="replace").read()
    import re
    m = re.search(r"(?m)^error.*$", txt)
    return m.group(0)[:300] if m else txt[-300:]


def stream_driver(binary, programs, label):
    """Yield one record per program as the driver produces it (memory stays flat for large corpora)."""
    inp = os.path.join(WORK, "c03-%s.in" % label)
    with open(inp, "w", encoding="utf-8", errors="replace") as f:
        f.write("\n\0\n".join(programs))
    p = subprocess.Popen([binary, inp], stdout=subprocess.PIPE, stderr=subprocess.DEVNULL)
    for raw in p.stdout:
        line = raw.decode("utf-8", "replace")
        if not line.strip():
            continue
        try:
            yield json.loads(line)
        except Exception:
            continue
    p.wait()


def run_driver(binary, programs, label):
    res = {}
    for d in stream_driver(binary, programs, label):
        res[d["i"]] = d
    return res, 0


# --------------------------------------------------------------------------------------------------------
# encoding


def operand_table(op, field):
    k = (op, field)
    if k in model.OPERAND_TABLE:
        return model.OPERAND_TABLE[k], True
    k = ("*", field)
    if k in model.OPERAND_TABLE:
        return model.OPERAND_TABLE[k], True
    return None, False


NOTHROW = set()


class Body:
    def __init__(self, blk, optypes):
        self.b = blk
        self.ins = blk["instructions"]
        self.by_pc = {i["pc"]: i for i in self.ins}
        self.optypes = optypes
        self.succ = {}       # pc -> list of (target_pc, kind)
        self.ground = []     # (name, ok:bool, text)
        self.unchecked = set()
        self._cfg()

    def handler_for(self, pc):
        hs = self.b["handlers"]
        for k in range(len(hs) - 1, -1, -1):
            s, e, _c = hs[k]
            if s <= pc < e:
                return k
        return None

    def _cfg(self):
        b = self.b
        n_bytes = b["bytes"]
        starts = set(self.by_pc)
        g = self.ground
        if b.get("decode_error"):
            g.append(("decode", False, b["decode_error"]))
        last = self.ins[-1] if self.ins else None
        g.append(("nonempty", bool(self.ins), "body has instructions"))
        for i in self.ins:
            pc, op, f = i["pc"], i["op"], i.get("f", {})
            if i.get("reserved"):
                g.append(("reserved@%d" % pc, False, "reserved opcode %s emitted" % op))
                self.succ[pc] = []
                continue
            types = self.optypes.get(op, {})
            succ = []
            if op not in model.TERMINATORS:
                if i["next"] in starts:
                    succ.append((i["next"], "fall"))
                else:
                    g.append(("fallthrough@%d" % pc, False, "%s at %d falls through past the end of the body" % (op, pc)))
            if op in model.JUMPS:
                t = f["address"]
                ok = t in starts
                g.append(("target@%d" % pc, ok, "%s at %d jumps to %d (instruction start: %s)" % (op, pc, t, ok)))
                if ok:
                    succ.append((t, "jump"))
            if op == "JumpTable":
                for k, t in enumerate(f["addresses"]):
                    ok = t in starts
                    g.append(("target@%d.%d" % (pc, k), ok, "JumpTable at %d entry %d -> %d (instruction start: %s)" % (pc, k, t, ok)))
                    if ok:
                        succ.append((t, "table"))
            self.succ[pc] = succ
            # operand ranges
            for fname, val in f.items():
                ty = types.get(fname, "")
                vals = val if isinstance(val, list) else [val]
                if ty in ("RegisterOperand", "ThinVec<RegisterOperand>"):
                    tab = "reg"
                elif ty == "Address" or ty == "ThinVec<Address>":
                    continue
                else:
                    tab, known = operand_table(op, fname)
                    if not known and ty in ("IndexOperand", "ThinVec<u32>", "u32"):
                        self.unchecked.add("%s.%s" % (op, fname))
                    if tab is None:
                        continue
                for k, v in enumerate(vals):
                    nm = "operand@%d.%s%s" % (pc, fname, (".%d" % k) if isinstance(val, list) else "")
                    if tab == "reg":
                        ok = v < b["register_count"]
                        g.append((nm, ok, "%s.%s=%d < register_count=%d" % (op, fname, v, b["register_count"])))
                    elif tab == "bind":
                        ok = v < b["n_bindings"]
                        g.append((nm, ok, "%s.%s=%d < bindings=%d" % (op, fname, v, b["n_bindings"])))
                    elif tab == "ic":
                        ok = v < b["n_ic"]
                        g.append((nm, ok, "%s.%s=%d < inline caches=%d" % (op, fname, v, b["n_ic"])))
                    elif tab.startswith("const"):
                        ok = v < b["n_constants"]
                        kind_ok = True
                        if ok:
                            c = b["constants"][v]
                            want = tab.split(":")[1]
                            kind = "F" if isinstance(c, dict) and "fn" in c else "Sc" if isinstance(c, dict) else c
                            kind_ok = (kind in ("S", "B")) if want == "SB" else (kind == want)
                        g.append((nm, ok and kind_ok, "%s.%s=%d indexes a %s constant (table size %d)" % (op, fname, v, tab, b["n_constants"])))
        # handlers
        for k, (s, e, c) in enumerate(b["handlers"]):
            ok = s in starts and (e in starts) and s <= e
            g.append(("handler%d" % k, ok, "handler %d range [%d,%d) starts at instruction starts and is ordered" % (k, s, e)))
        if last is not None:
            ok = last["op"] in model.TERMINATORS
            g.append(("last-terminator", ok, "last instruction %s at %d is a terminator" % (last["op"], last["pc"])))
        # exceptional edges
        self.exc = {}
        for i in self.ins:
            if i["op"] in NOTHROW:
                continue
            h = self.handler_for(i["pc"])
            if h is not None and self.b["handlers"][h][1] in starts:
                self.exc[i["pc"]] = h

    def reachable(self):
        seen = set()
        if not self.ins:
            return seen
        work = [0] if 0 in self.by_pc else []
        while work:
            pc = work.pop()
            if pc in seen:
                continue
            seen.add(pc)
            for t, _k in self.succ.get(pc, []):
                work.append(t)
            if pc in self.exc:
                work.append(self.b["handlers"][self.exc[pc]][1])
        return seen

    def known_leak_sites(self):
        """Known finding `logical-assign-locator-leak`: `GetNameAndLocator r ; {Coalesce|LogicalAnd|LogicalOr} -> L, r`
        emitted for `x ??= e`, `x ||= e`, `x &&= e` on a non-lexical identifier: the short-circuit edge skips the
        matching SetNameByLocator and leaves the binding reference on the stack."""
        sites = set()
        prev = None
        for i in self.ins:
            if prev is not None and prev["op"] == "GetNameAndLocator" and i["op"] in ("Coalesce", "LogicalAnd", "LogicalOr") \
                    and prev.get("f", {}).get("dst") == i.get("f", {}).get("value"):
                sites.add(i["pc"])
            prev = i
        return sites

    def early_exit_region(self):
        """Known finding `handler-entered-below-count`: pcs reachable (normal edges, same innermost handler, no
        environment push in between) from a PopEnvironment that lies inside a handler range: the early-exit
        sequences (`PopEnvironment; IteratorReturn; ...; Return/Jump`) the compiler emits for return/break/continue
        out of a for-of/for-in body with a per-iteration environment, still inside the iterator-close handler."""
        region = set()
        for i in self.ins:
            if i["op"] != "PopEnvironment":
                continue
            h = self.handler_for(i["pc"])
            if h is None:
                continue
            work = [t for t, _ in self.succ.get(i["pc"], [])]
            while work:
                pc = work.pop()
                if pc in region or self.handler_for(pc) != h:
                    continue
                op = self.by_pc[pc]["op"]
                if op in ("PushScope", "PushObjectEnvironment"):
                    continue
                region.add(pc)
                work += [t for t, _ in self.succ.get(pc, [])]
        return region

    def smt(self, repair_sites=(), relax_region=()):
        """SMT-LIB text (between push/pop) + list of named assertions.  `repair_sites`: pcs of short-circuit jumps
        whose JUMP edge is modelled as also popping the binding reference (used only to decide whether a body's
        sole problem is the listed known finding)."""
        reach = sorted(self.reachable())
        L = []
        names = {}
        L.append("(declare-const base Int)")
        for pc in reach:
            L.append("(declare-const e%d Int)(declare-const b%d Int)" % (pc, pc))

        def named(nm, fml, text):
            key = "a%d" % len(names)
            names[key] = (nm, text)
            L.append("(assert (! %s :named %s))" % (fml, key))

        base = 1 if self.b.get("has_function_scope") else 0
        named("entry", ("(and (= base %d) (= e0 base) (= b0 0))" % base) if 0 in reach else "false",
              "entry depths: env=%d (function-scope environment pushed by the call prologue: %s), bind=0" % (base, bool(base)))
        for pc in reach:
            i = self.by_pc[pc]
            de, db = model.DELTA.get(i["op"], (0, 0))
            named("nonneg@%d" % pc, "(and (>= e%d 0) (>= b%d 0) (>= (+ e%d %s) 0) (>= (+ b%d %s) 0))" % (pc, pc, pc, num(de), pc, num(db)),
                  "%s at %d keeps env/bind depth non-negative" % (i["op"], pc))
            if i["op"] == "Return":
                # a normal completion never happens in the middle of an assignment expression (abrupt generator/async
                # completions travel through Throw/ReThrow), so no binding reference may be pending
                named("return-bind0@%d" % pc, "(= b%d 0)" % pc, "Return at %d is reached with an empty binding-reference stack" % pc)
            for t, kind in self.succ.get(pc, []):
                if kind == "jump" and pc in repair_sites:
                    named("edge@%d->%d" % (pc, t), "(and (= e%d e%d) (= b%d (+ b%d (- 1))))" % (t, pc, t, pc),
                          "REPAIRED short-circuit edge %d -> %d (%s): bind-1 (known finding assumed away)" % (pc, t, i["op"]))
                    continue
                named("edge@%d->%d" % (pc, t), "(and (= e%d (+ e%d %s)) (= b%d (+ b%d %s)))" % (t, pc, num(de), t, pc, num(db)),
                      "%s edge %d -> %d (%s): env%+d bind%+d" % (kind, pc, t, i["op"], de, db))
            if pc in self.exc:
                h = self.exc[pc]
                s, e, c = self.b["handlers"][h]
                # handler entry: environments truncated to env_fp + environment_count; the binding stack is NOT
                # truncated by the VM, entries pushed inside the range stay below later pushes (see DESIGN C03)
                # environment_count is relative to env_fp (the function-scope environment the VM pushes in the call
                # prologue is counted by the compiler: entry depth `base` is 1 for such bodies)
                fm = "(and (= e%d %d) (>= e%d %d))" % (e, c, pc, c)
                if pc in relax_region:
                    fm = "(= e%d %d)" % (e, c)
                if s in reach:
                    fm = "(and %s (= b%d b%d) (>= b%d b%d))" % (fm, e, s, pc, s)
                named("handler-edge@%d->%d" % (pc, e), fm,
                      "exception at %d enters handler %d at %d with env=%d (truncate only shrinks), bind as at range start %d" % (pc, h, e, c, s))
        for k, (nm, ok, text) in enumerate(self.ground):
            named(nm, "true" if ok else "false", text)
        return "\n".join(L), names, len(reach)


def num(n):
    return str(n) if n >= 0 else "(- %d)" % -n


class Solver:
    def __init__(self, cmd, name):
        self.name = name
        self.p = subprocess.Popen(cmd, stdin=subprocess.PIPE, stdout=subprocess.PIPE, stderr=subprocess.STDOUT, text=True, bufsize=1)
        self.time = 0.0
        self.queries = 0
        self.send("(set-option :produce-unsat-cores true)\n(set-logic ALL)\n")

    def send(self, s):
        self.p.stdin.write(s)
        self.p.stdin.flush()

    def readline(self):
        return self.p.stdout.readline().strip()

    def check(self, body_smt, want_core):
        t0 = time.time()
        self.queries += 1
        self.send("(push 1)\n" + body_smt + "\n(check-sat)\n")
        r = self.readline()
        while r == "" or r.startswith("(error") and False:
            r = self.readline()
        core = None
        err = None
        if r.startswith("(error"):
            err = r
        elif r == "unsat" and want_core:
            self.send("(get-unsat-core)\n")
            core = self.readline().strip("() ").split()
        elif r == "sat" and want_core:
            self.send("(get-value (base))\n")
            core = self.readline()
        self.send("(pop 1)\n")
        self.time += time.time() - t0
        return r, core, err

    def close(self):
        try:
            self.send("(exit)\n")
            self.p.wait(timeout=5)
        except Exception:
            self.p.kill()


def two_paths(body, pc):
    """Two acyclic paths from entry to pc (BFS tree path and an alternative through another predecessor)."""
    pred = {}
    order = []
    work = [0]
    seen = {0}
    while work:
        x = work.pop(0)
        order.append(x)
        nxt = [t for t, _ in body.succ.get(x, [])]
        if x in body.exc:
            nxt.append(body.b["handlers"][body.exc[x]][1])
        for t in nxt:
            pred.setdefault(t, []).append(x)
            if t not in seen:
                seen.add(t)
                work.append(t)
    return pred


def check_blocks(blocks, optypes, z3, cvc5, rnd, stats, program_index, program_src, findings, tier, kf_leak=False, kf_below=False):
    for blk in blocks:
        body = Body(blk, optypes)
        smt, names, nreach = body.smt()
        r, core, err = z3.check(smt, True)
        stats["bodies"] += 1
        stats["instructions"] += len(body.ins)
        stats["reachable_instructions"] += nreach
        stats["assertions"] += len(names)
        stats["edges"] += sum(len(v) for v in body.succ.values()) + len(body.exc)
        stats["unchecked_operands"].update(body.unchecked)
        if err or r not in ("sat", "unsat"):
            stats["errors"].append("program %d block %d: z3 said %r %r" % (program_index, blk["id"], r, err))
            continue
        recheck = r == "unsat" or rnd.random() < (0.05 if tier == "quick" else 0.2)
        if recheck:
            r2, _c2, err2 = cvc5.check(smt, False)
            stats["cross_checked"] += 1
            if err2 or r2 != r:
                stats["errors"].append("program %d block %d: z3=%s cvc5=%s %r" % (program_index, blk["id"], r, r2, err2))
                continue
        if r == "sat":
            stats["sat"] += 1
            stats["assertions_sat_bodies"] += len(names)
            if len(stats["samples"]) < 12 and len(body.ins) > 12 and body.b["handlers"]:
                stats["samples"].append({"program": program_src[:160], "block": blk["name"], "instructions": len(body.ins),
                                         "handlers": len(body.b["handlers"]), "assertions": len(names), "verdict": "sat", "base": core})
            continue
        stats["unsat"] += 1
        if kf_leak or kf_below:
            sites = body.known_leak_sites() if kf_leak else set()
            region = body.early_exit_region() if kf_below else set()
            if sites or region:
                smt2, names2, _n = body.smt(repair_sites=sites, relax_region=region)
                r3, core3, err3 = z3.check(smt2, True)
                r4, _c4, err4 = cvc5.check(smt2, False)
                stats["cross_checked"] += 1
                if err3 or err4 or r3 != r4:
                    stats["errors"].append("program %d block %d (repaired): z3=%s cvc5=%s" % (program_index, blk["id"], r3, r4))
                    continue
                if r3 == "sat":
                    # attribute: which relaxation was needed?
                    if sites and region:
                        ra, _ca, _ea = z3.check(body.smt(repair_sites=sites)[0], False)
                        which = "leak" if ra == "sat" else "below"
                    else:
                        which = "leak" if sites else "below"
                    stats["kf_" + which] = stats.get("kf_" + which, 0) + 1
                    stats["known_finding_bodies"] += 1
                    if len(stats["known_finding_samples"]) < 5:
                        stats["known_finding_samples"].append(program_src[:200])
                    continue
                core, names = core3, names2
        core_txt = [names[c] for c in core if c in names]
        findings.append({"program_index": program_index, "program": program_src, "block_id": blk["id"], "block": blk["name"],
                         "core": [{"name": n, "text": t} for n, t in core_txt]})


def optypes_from_source():
    import opcodes
    return {o["name"]: dict(o["fields"]) for o in opcodes.parse()}


def engine(pid, tier, seed, verdict, ev, only):
    import random
    t0 = time.time()
    probs = model.sync_check()
    if probs:
        verdict["inconclusive"].append("C03(b): hand model of handler stack effects is out of sync with the handler sources: " + "; ".join(probs))
        return
    binary, err, build_s = build_driver()
    if err:
        verdict["inconclusive"].append("C03(b): " + err)
        return
    optypes = optypes_from_source()
    NOTHROW.clear()
    NOTHROW.update(model.cannot_throw())
    # ---- corpus
    progs = []
    snippets = corpus.repo_snippets()
    progs += [("repo-test", s) for s in snippets]
    depth = 1 if tier == "quick" else 2
    gram = corpus.enumerate_programs(depth)
    if len(gram) > 12000:  # deterministic thinning: every k-th program
        k = len(gram) // 12000 + 1
        gram = gram[::k]
    progs += [("grammar-d%d" % depth, s) for s in gram]
    progs += [("scopes-d%d" % depth, s) for s in corpus.scope_programs(depth)]
    progs += [("seeded-%d" % seed, s) for s in corpus.seeded_programs(seed, 300 if tier == "quick" else 2000)]
    progs += [("seeded-scopes-%d" % seed, s) for s in corpus.seeded_scope_programs(seed, 1500 if tier == "quick" else 8000)]
    # programs listed in known findings / replays are always part of the corpus
    known_all = json.load(open(os.path.join(VERIF, "known_findings.json")))["findings"]
    kf_leak = any(f["property"] == pid and f.get("key") == "logical-assign-locator-leak" for f in known_all)
    kf_below = any(f["property"] == pid and f.get("key") == "handler-entered-below-count" for f in known_all)
    # the canonical witness of the listed finding is always part of the corpus
    progs.append(("known-finding-witness", "var i; var v; v = 'x' + (i ??= 3);"))
    z3 = Solver(["z3", "-in"], "z3")
    cvc5 = Solver(["cvc5", "--lang", "smt2", "--incremental", "--produce-unsat-cores"], "cvc5")
    rnd = random.Random(seed)
    stats = {"bodies": 0, "instructions": 0, "reachable_instructions": 0, "assertions": 0, "edges": 0, "sat": 0, "unsat": 0,
             "cross_checked": 0, "errors": [], "samples": [], "unchecked_operands": set(), "programs_ok": 0,
             "programs_rejected": 0, "programs_panicked": 0, "known_finding_bodies": 0, "known_finding_samples": [], "assertions_sat_bodies": 0}
    findings = []
    panics = []
    by_origin = {}
    n_records = 0
    for d in stream_driver(binary, [p for _, p in progs], "%s-%s" % (pid, tier)):
        i = d["i"]
        if i >= len(progs):
            continue
        n_records += 1
        origin, src = progs[i]
        if d["status"] == "rejected":
            stats["programs_rejected"] += 1
            continue
        if d["status"] == "panic":
            stats["programs_panicked"] += 1
            panics.append({"program": src, "error": d.get("error", "")})
            continue
        stats["programs_ok"] += 1
        by_origin[origin] = by_origin.get(origin, 0) + 1
        check_blocks(d["blocks"], optypes, z3, cvc5, rnd, stats, i, src, findings, tier, kf_leak=kf_leak, kf_below=kf_below)
    z3.close()
    cvc5.close()
    if n_records < len(progs) * 0.98:
        verdict["inconclusive"].append("C03(b): driver produced %d of %d records" % (n_records, len(progs)))
    stats["unchecked_operands"] = sorted(stats["unchecked_operands"])
    # ---- verdicts
    new = [(signature(f), f) for f in findings]
    if stats["errors"]:
        verdict["inconclusive"].append("C03(b): solver errors/disagreements: " + "; ".join(stats["errors"][:3]))
    seen_sig = set()
    for sig, f in new:
        if sig in seen_sig:
            continue
        seen_sig.add(sig)
        d = os.path.join(VERIF, "replays", pid)
        os.makedirs(d, exist_ok=True)
        import hashlib, re as _re
        path = os.path.join(d, "c03b_%s_%s.json" % (_re.sub(r"[^A-Za-z0-9]+", "_", f["block"] or "anon")[:24], hashlib.sha1(sig.encode()).hexdigest()[:10]))
        with open(path, "w") as fh:
            json.dump({"kind": "c03b", "signature": sig, "program": f["program"], "block": f["block"], "block_id": f["block_id"], "core": f["core"]}, fh, indent=1)
        verdict["violations"].append({"replay": path, "what": "C03(b) body %r of program %r: no consistent depth assignment / structural obligation fails: %s" % (
            f["block"], f["program"][:120], "; ".join(c["text"] for c in f["core"][:4]))})
    for p in panics[:3]:
        d = os.path.join(VERIF, "replays", pid)
        os.makedirs(d, exist_ok=True)
        path = os.path.join(d, "c03b_compile_panic_%d.json" % (abs(hash(p["program"])) % 10**8))
        with open(path, "w") as fh:
            json.dump({"kind": "c03b-panic", "program": p["program"], "error": p["error"]}, fh, indent=1)
        verdict["violations"].append({"replay": path, "what": "compiler/parser panicked on %r: %s" % (p["program"][:120], p["error"][:200])})
    # ---- evidence
    ev["engines"].append({"engine": "smt-c03b", "wall_s": round(time.time() - t0, 1), "driver_build_s": round(build_s, 1)})
    ev["queries"] += z3.queries + cvc5.queries
    ev["solver_time_s"] += z3.time + cvc5.time
    ev["obligations"] += stats["assertions"]
    ev["discharged"] += stats["assertions_sat_bodies"]
    for s in stats["samples"]:
        ev["samples"].append(s)
        ev["nontrivial"].add(("c03b", s["program"], s["block"]))
    ev["cmds"].append("z3 -in (push/pop per body) ;; cvc5 --lang smt2 --incremental (every unsat + seeded sample of sat)")
    ev["extra"].update({
        "programs": stats["programs_ok"], "programs_rejected_by_parser": stats["programs_rejected"],
        "programs_by_origin": by_origin, "bodies": stats["bodies"], "instructions": stats["instructions"],
        "reachable_instructions": stats["reachable_instructions"], "cfg_edges": stats["edges"],
        "smt_assertions": stats["assertions"], "bodies_sat": stats["sat"], "bodies_unsat": stats["unsat"],
        "disagreements_checked": stats["cross_checked"], "unchecked_operands": stats["unchecked_operands"],
        "known_finding_bodies": stats["known_finding_bodies"], "known_finding_samples": stats["known_finding_samples"],
        "known_finding_bodies_by_key": {"logical-assign-locator-leak": stats.get("kf_leak", 0), "handler-entered-below-count": stats.get("kf_below", 0)},
        "states": stats["reachable_instructions"], "transitions": stats["edges"], "traces_validated_against_impl": 0,
        "delta_table": {k: list(v) for k, v in model.DELTA.items()},
        "opcodes_without_error_path": sorted(NOTHROW),
    })


def signature(f):
    """Role-based key of a finding: body name + the opcodes/roles named in the unsat core (no pcs)."""
    import re
    roles = sorted(set(re.sub(r"[0-9]+", "#", c["text"]) for c in f["core"]))
    return (f["block"] + "|" + "|".join(roles))[:300]
