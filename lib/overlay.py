"""Overlay of /repo's current working tree with harness child modules injected.

Nothing in /repo is modified.  See DESIGN.md section 2.1.
"""
import fcntl
import hashlib
import os
import re
import subprocess
import sys

VERIF = os.path.dirname(os.path.dirname(os.path.abspath(__file__)))
REPO = os.environ.get("VERIF_REPO", "/repo")
WORK = os.path.join(VERIF, ".work")
OVERLAY = os.path.join(WORK, "overlay")
HARNESS_DIR = os.path.join(VERIF, "harness")

_lock_fh = None


def lock():
    """Serialise every user of the overlay / target dirs (one check at a time)."""
    global _lock_fh
    os.makedirs(WORK, exist_ok=True)
    if _lock_fh is None:
        _lock_fh = open(os.path.join(WORK, "lock"), "w")
        fcntl.flock(_lock_fh, fcntl.LOCK_EX)


def _read(p):
    with open(p, "rb") as f:
        return f.read()


def _write_if_changed(p, data):
    if os.path.exists(p) and _read(p) == data:
        return False
    os.makedirs(os.path.dirname(p), exist_ok=True)
    with open(p, "wb") as f:
        f.write(data)
    return True


def workspace_toml():
    """Reduced workspace manifest: core/* + utils/*, tables copied verbatim from /repo."""
    src = _read(os.path.join(REPO, "Cargo.toml")).decode()
    # cut the [workspace] header table (members/exclude) and keep everything from
    # [workspace.package] on
    i = src.index("[workspace.package]")
    head = '[workspace]\nresolver = "2"\nmembers = ["core/*", "utils/*"]\n\n'
    return head + src[i:]


def module_ident(relpath):
    return "verif_kani_" + re.sub(r"[^A-Za-z0-9]", "_", relpath)


def harness_files(selected=None):
    """Yield (harness_abs_path, target_rel_path) for each harness module.

    /verif/harness/<target path relative to /repo>.<tag>.kani.rs  is injected as a child
    module of  /repo/<target path>.  Several harness files may target one source file.
    """
    out = []
    for root, _dirs, files in os.walk(HARNESS_DIR):
        for fn in sorted(files):
            if not fn.endswith(".kani.rs"):
                continue
            ap = os.path.join(root, fn)
            rel = os.path.relpath(ap, HARNESS_DIR)
            m = re.match(r"(.*\.rs)\.([A-Za-z0-9_]+)\.kani\.rs$", rel)
            if not m:
                raise SystemExit("bad harness file name: " + rel)
            target, tag = m.group(1), m.group(2)
            if selected is not None and tag not in selected:
                continue
            out.append((ap, target, tag))
    return out


def build(selected_tags=None, extra_files=None, verbose=False, transform=None):
    """Synchronise the overlay with /repo's working tree and inject harness modules.

    selected_tags: iterable of harness-file tags to inject (None = all).
    extra_files:  {overlay-relative path: bytes} written verbatim (e.g. generated harnesses:
                  keys of the form  '<target>.rs::<tag>'  are treated as injected child modules).
    Returns dict with the sha256 of every injected target source file (evidence).
    """
    lock()
    os.makedirs(OVERLAY, exist_ok=True)
    hs = harness_files(set(selected_tags) if selected_tags is not None else None)
    gen = {}
    for k, v in (extra_files or {}).items():
        if "::" in k:
            target, tag = k.split("::")
            gen[(target, tag)] = v
    targets = {}
    for ap, target, tag in hs:
        data = _read(ap)
        if transform is not None:
            data = transform(data.decode()).encode()
        targets.setdefault(target, []).append((tag, data))
    for (target, tag), data in gen.items():
        targets.setdefault(target, []).append((tag, data))

    # 1. rsync the sources (mtime preserving); patched files and injected modules are excluded
    #    from the transfer and handled below so that unchanged files keep their mtimes.
    filt = ["--exclude=/target", "--exclude=target/", "--exclude=verif_kani_*.rs",
            "--exclude=/Cargo.toml", "--exclude=/utils/verif_c03", "--exclude=/Cargo.lock"]
    for t in targets:
        filt.append("--exclude=/" + t)
    cmd = ["rsync", "-a", "--delete", "--delete-excluded"] + filt + [
        os.path.join(REPO, "core"), os.path.join(REPO, "utils"),
        os.path.join(REPO, "Cargo.lock"), os.path.join(REPO, "clippy.toml"), OVERLAY + "/"]
    # --delete-excluded would delete our injected files: so do not use it; instead delete stale
    # injected modules by hand.
    cmd.remove("--delete-excluded")
    subprocess.run(cmd, check=True)
    _write_if_changed(os.path.join(OVERLAY, "Cargo.toml"), workspace_toml().encode())
    # Cargo.lock: start from /repo's, but keep the overlay's copy while /repo's is unchanged (cargo adds
    # the local driver package to it)
    lock_src = _read(os.path.join(REPO, "Cargo.lock"))
    stamp_l = os.path.join(WORK, "cargo.lock.src")
    if not os.path.exists(stamp_l) or _read(stamp_l) != lock_src or not os.path.exists(os.path.join(OVERLAY, "Cargo.lock")):
        _write_if_changed(os.path.join(OVERLAY, "Cargo.lock"), lock_src)
        _write_if_changed(stamp_l, lock_src)

    wanted = set()
    digests = {}
    for target, mods in targets.items():
        src_path = os.path.join(REPO, target)
        if not os.path.exists(src_path):
            raise SystemExit("INCONCLUSIVE: harness target %s does not exist in %s" % (target, REPO))
        src = _read(src_path)
        digests[target] = hashlib.sha256(src).hexdigest()
        tail = b"\n"
        d = os.path.dirname(target)
        for tag, data in sorted(mods):
            ident = module_ident(os.path.basename(target)[:-3] + "_" + tag)
            fname = ident + ".rs"
            # a non-mod-rs file `foo.rs` looks for child modules in `foo/`, but #[path] on a
            # non-inline module is relative to the directory of the current file.
            tail += (b"" if tag.startswith("native") else b"#[cfg(kani)]\n")
            tail += (b"#[allow(warnings, clippy::all, clippy::pedantic, clippy::nursery, "
                     b"clippy::restriction, unused, unsafe_code, missing_docs)]\n#[path = \"%s\"]\n%smod %s;\n"
                     % (fname.encode(), b"pub(crate) " if tag.startswith("pub") else b"", ident.encode()))
            _write_if_changed(os.path.join(OVERLAY, d, fname), data)
            wanted.add(os.path.normpath(os.path.join(OVERLAY, d, fname)))
        _write_if_changed(os.path.join(OVERLAY, target), src + tail)
    # sources that were patched in an earlier run but are not any more: restore
    stamp = os.path.join(WORK, "patched.list")
    old = set(open(stamp).read().split("\n")) if os.path.exists(stamp) else set()
    for t in old - set(targets) - {""}:
        sp = os.path.join(REPO, t)
        if os.path.exists(sp):
            _write_if_changed(os.path.join(OVERLAY, t), _read(sp))
    with open(stamp, "w") as f:
        f.write("\n".join(sorted(targets)))
    # remove stale injected modules
    for root, _d, files in os.walk(OVERLAY):
        if "/target" in root:
            continue
        for fn in files:
            if fn.startswith("verif_kani_") and fn.endswith(".rs"):
                p = os.path.normpath(os.path.join(root, fn))
                if p not in wanted:
                    os.remove(p)
    for k, v in (extra_files or {}).items():
        if "::" not in k:
            _write_if_changed(os.path.join(OVERLAY, k), v)
    if verbose:
        print("overlay: %d harness modules injected into %d files" % (len(wanted), len(targets)), file=sys.stderr)
    return digests


if __name__ == "__main__":
    print(build(verbose=True))
