"""Check driver: overlay -> engines -> replay -> verdict -> evidence."""
import hashlib
import json
import os
import re
import subprocess
import sys
import time

import kani
import overlay
from overlay import VERIF, WORK, REPO

EVID = os.path.join(VERIF, "evidence")
REPLAYS = os.path.join(VERIF, "replays")


def load_known():
    p = os.path.join(VERIF, "known_findings.json")
    if not os.path.exists(p):
        return {"findings": [], "fixed": []}
    return json.load(open(p))


def kf_transform(findings):
    """Source transform: `// @kf-point <harness>` -> kani::assume(!(expr)) for each listed finding."""
    by_h = {}
    for f in findings:
        if f.get("assume_not"):
            by_h.setdefault(f["harness"], []).append(f)

    def tr(text):
        def rep(m):
            h = m.group(1)
            lines = []
            for f in by_h.get(h, []):
                lines.append("kani::assume(!(%s)); // known finding %s" % (f["assume_not"], f["key"]))
            return "\n".join(lines) if lines else m.group(0)
        return re.sub(r"// @kf-point (\w+)", rep, text)
    return tr


def repo_state():
    try:
        head = subprocess.run(["git", "-C", REPO, "rev-parse", "HEAD"], stdout=subprocess.PIPE).stdout.decode().strip()
        dirty = subprocess.run(["git", "-C", REPO, "status", "--porcelain", "--", "core", "utils"],
                               stdout=subprocess.PIPE).stdout.decode().strip()
        return {"head": head, "dirty_files": [l[3:] for l in dirty.split("\n") if l]}
    except Exception:
        return {}


def main(pid, tier, replay_path=None, only=None):
    import props
    if pid not in props.PROPS:
        print("property %s is not claimed (see MANIFEST.json not_applicable)" % pid)
        return 2
    if replay_path:
        return do_replay(pid, replay_path)
    cfg = props.PROPS[pid]
    seed = int(os.environ.get("VERIF_SEED", "0") or 0)
    t0 = time.time()
    known = load_known()
    kfs = [f for f in known["findings"] if f["property"] == pid]
    overlay.lock()

    verdict = {"violations": [], "inconclusive": [], "known": []}
    ev = {"harness_results": [], "engines": [], "queries": 0, "solver_time_s": 0.0, "obligations": 0,
          "discharged": 0, "covers_satisfied": 0, "covers_total": 0, "nontrivial": set(), "samples": [],
          "functions": set(), "stubs": set(), "bounds": {}, "cmds": [], "undecided": [], "tools": {},
          "source_digests": {}, "extra": {}}

    # ---------------- Engine K groups
    for gi, grp in enumerate(cfg.get("kani", [])):
        tags = grp["tags"]
        gen = grp["generate"](tier) if grp.get("generate") else {}
        digests = overlay.build(selected_tags=tags, extra_files=gen, transform=kf_transform(known["findings"]))
        ev["source_digests"].update(digests)
        hs = []
        for ap, target, tag in overlay.harness_files(set(tags)):
            hs += kani.parse_meta_text(open(ap).read(), ap, tag, target)
        for k, v in gen.items():
            if "::" in k:
                hs += kani.parse_meta_text(v.decode(), None, k.split("::")[1], k.split("::")[0])
        sel = [h for h in hs if pid in h.props and h.tier != "never" and (tier == "thorough" or h.tier == "quick")]
        if grp.get("tier_only"):
            sel = [h for h in sel if tier == grp["tier_only"] or tier == "thorough"]
        if grp.get("names", {}).get(tier):
            sel = [h for h in sel if h.name in grp["names"][tier]]
        if only:
            sel = [h for h in sel if h.name in only]
        if not sel:
            continue
        names = [h.name for h in sel]
        to = grp.get("timeout", {}).get(tier, 1200 if tier == "quick" else 1800)  # slowest quick harness ≈ 260 s on an idle 16-core box; generous margin for a loaded one
        res, info = kani.run(grp["package"], names, grp.get("flags", []), jobs=grp.get("jobs"),
                             harness_timeout=to, total_timeout=grp.get("total_timeout", {}).get(tier, 5400 if tier == "quick" else 20000),
                             label="%s-%s-%d" % (pid, tier, gi))
        ev["cmds"].append(info["cmd"])
        ev["tools"] = info.get("tools", ev["tools"])
        ev["engines"].append({"engine": "kani", "package": grp["package"], "flags": grp.get("flags", []),
                              "harnesses": len(names), "wall_s": round(info["wall_s"], 1), "rc": info["rc"]})
        if info.get("fatal"):
            print("INCONCLUSIVE: %s (%s); log %s" % (info["fatal"], grp["package"], info["log"]))
        for h in sel:
            r = res[h.name]
            handle_kani_result(pid, grp, h, r, verdict, ev, kfs)

    # ---------------- other engines (C03 SMT, C05 FP, ...)
    for eng in cfg.get("engines", []):
        eng(pid, tier, seed, verdict, ev, only)

    for f in kfs:
        print("KNOWN-FINDING: property=%s %s" % (pid, f["what"]))
        verdict["known"].append(f["key"])

    wall = time.time() - t0
    write_evidence(pid, tier, seed, cfg, ev, verdict, wall, partial=bool(only))
    for v in verdict["violations"]:
        print("VIOLATION property=%s replay=%s" % (pid, v["replay"]))
        print("  " + v["what"])
    if verdict["violations"]:
        return 1
    if verdict["inconclusive"]:
        for x in verdict["inconclusive"]:
            print("INCONCLUSIVE: %s" % x)
        return 2
    print("OK property=%s tier=%s harnesses=%d obligations=%d discharged=%d solver_s=%.1f wall_s=%.0f" % (
        pid, tier, len(ev["harness_results"]), ev["obligations"], ev["discharged"], ev["solver_time_s"], wall))
    return 0


def handle_kani_result(pid, grp, h, r, verdict, ev, kfs):
    st = r["status"]
    nfail = len(r.get("failed", []))
    ev["queries"] += 1
    stats = r.get("stats", {})
    ev["solver_time_s"] += float(stats.get("runtime_decision_procedure_s", 0) or 0)
    ev["obligations"] += r.get("checks", 0) + len(r.get("covers", []))
    ev["functions"].update(r.get("functions", []))
    if h.stubs:
        ev["stubs"].add(h.stubs)
    ev["bounds"][h.name] = h.bounds
    cs = [c for c in r.get("covers", []) if c["status"] == "Satisfied"]
    ev["covers_satisfied"] += len(cs)
    ev["covers_total"] += len(r.get("covers", []))
    rec = {"harness": h.name, "config": " ".join(grp.get("flags", [])), "status": st, "checks": r.get("checks", 0), "failed": nfail,
           "covers": "%d/%d" % (len(cs), len(r.get("covers", []))),
           "time_s": round(r.get("duration_s", 0), 1),
           "solver_s": round(float(stats.get("runtime_decision_procedure_s", 0) or 0), 2),
           "symex_s": round(float(stats.get("runtime_symex_s", 0) or 0), 2),
           "vccs": stats.get("vccs_generated"), "reason": r.get("reason", "")}
    ev["harness_results"].append(rec)
    ev.setdefault("attempted", []).append(dict(h.as_sample(), status=st))
    if st == "discharged":
        ev["discharged"] += r.get("checks", 0) + len(cs)
        for c in cs:
            ev["nontrivial"].add((h.name, "cover", c["desc"]))
        ev["samples"].append(h.as_sample())
        return
    if st == "inconclusive":
        ev["undecided"].append(h.name)
        verdict["inconclusive"].append("%s: %s" % (h.name, r.get("reason")))
        return
    # candidate violation -> replay natively
    what = r.get("reason", "")
    res2, info2 = kani.run(grp["package"], [h.name], grp.get("flags", []), jobs=1,
                           harness_timeout=max(900, int(r.get("duration_s", 0) * 4)), total_timeout=4000,
                           label="%s-pb-%s" % (pid, h.name), playback=True)
    tests = [t for t in res2[h.name].get("tests", []) if t["kind"] != "cover"]
    if not tests:
        ev["undecided"].append(h.name)
        verdict["inconclusive"].append("%s: counterexample without concrete playback test (%s)" % (h.name, what))
        return
    # keep at most 3 distinct tests
    tests = tests[:3]
    reps = kani.replay_tests(grp["package"], h, tests, grp.get("flags", []))
    ok = [x for x in reps if x.get("dev") or x.get("release")]
    rec["replay"] = [{k: v for k, v in x.items() if not k.endswith("_out")} for x in reps]
    if ok:
        d = os.path.join(REPLAYS, pid)
        os.makedirs(d, exist_ok=True)
        path = os.path.join(d, h.name + ".rs")
        with open(path, "w") as f:
            f.write("// replay for property %s, harness %s (package %s, flags %s)\n" % (
                pid, h.name, grp["package"], " ".join(grp.get("flags", []))))
            f.write("// failing checks: %s\n" % what)
            f.write("// native reproduction: %s\n" % json.dumps(
                [{"fn": x["fn"], "dev_fails": x.get("dev"), "release_fails": x.get("release"),
                  "panic": x.get("dev_out") or x.get("release_out")} for x in ok]))
            f.write("// @replay package=%s harness=%s tag=%s flags=%s\n" % (
                grp["package"], h.name, h.tag, ",".join(grp.get("flags", []))))
            for t in tests:
                if any(t["fn"] == x["fn"] for x in ok):
                    f.write(t["src"] + "\n")
        verdict["violations"].append({"replay": path, "what": "%s: %s -- reproduced natively: %s" % (
            h.name, what, (ok[0].get("dev_out") or ok[0].get("release_out") or "").replace("\n", " ")[:300])})
    else:
        ev["undecided"].append(h.name)
        why = "counterexample did not reproduce natively (encoding/stub artefact or UB-only check)"
        if any(x.get("dev") is None for x in reps):
            why = "playback did not build/run: " + (reps[0].get("dev_out") or "")[-300:]
        verdict["inconclusive"].append("%s: %s; failing checks: %s" % (h.name, why, what))


def do_replay(pid, path):
    import props
    txt = open(path).read()
    if path.endswith(".json"):
        return do_replay_json(pid, path, json.loads(txt))
    m = re.search(r"// @replay package=(\S+) harness=(\S+) tag=(\S+) flags=(\S*)", txt)
    if not m:
        print("not a replay file")
        return 2
    package, hname, tag, flags = m.group(1), m.group(2), m.group(3), [x for x in m.group(4).split(",") if x]
    overlay.lock()
    gen = {}
    for grp in props.PROPS[pid].get("kani", []):
        if grp.get("generate"):
            gen.update(grp["generate"]("thorough"))
    overlay.build(selected_tags=[tag], extra_files=gen)
    tests = []
    for mm in re.finditer(r"(?s)(/// Test generated for harness.*?\n#\[test\]\nfn (\w+)\(\) \{.*?\n\})", txt):
        tests.append({"fn": mm.group(2), "src": mm.group(1), "kind": "assertion", "desc": ""})
    reps = kani.replay_tests(package, hname, tests, flags)
    bad = [x for x in reps if x.get("dev") or x.get("release")]
    for x in reps:
        print("replay %s: dev_fails=%s release_fails=%s %s" % (x["fn"], x.get("dev"), x.get("release"),
                                                              (x.get("dev_out") or "").replace("\n", " ")[:300]))
    if bad:
        print("VIOLATION property=%s replay=%s" % (pid, path))
        return 1
    print("replay passes on the current tree")
    return 0


def write_evidence(pid, tier, seed, cfg, ev, verdict, wall, partial=False):
    os.makedirs(EVID, exist_ok=True)
    nontriv = len(ev["nontrivial"])
    cov = {
        "evaluations": ev["obligations"],
        "distinct_nontrivial": nontriv,
        "rule": ("one evaluation = one CBMC/SMT obligation (assertion, safety check or cover goal) decided by the "
                 "solver over the whole symbolic input domain of its harness; distinct non-trivial = distinct "
                 "(harness, cover goal) pairs that the solver showed SATISFIED in a fully discharged harness, i.e. "
                 "distinct branch classes of the real code proven reachable inside a proof that passed (vacuity witnesses); "
                 "for SMT engines: distinct instances whose verdict was re-decided by the second solver"),
        "samples": (ev["samples"] or ev.get("attempted", []))[:40],
        "obligations": ev["obligations"],
        "discharged": ev["discharged"],
        "queries": ev["queries"],
        "solver_time_s": round(ev["solver_time_s"], 2),
        "covers_satisfied": ev["covers_satisfied"],
        "covers_total": ev["covers_total"],
        "harnesses": ev["harness_results"],
        "undecided": ev["undecided"],
        "functions_encoded": sorted(ev["functions"])[:400],
        "functions_encoded_count": len(ev["functions"]),
        "bounds": ev["bounds"],
        "stubs": sorted(ev["stubs"]),
        "checker_cmd": " ;; ".join(ev["cmds"])[:4000],
        "engines": ev["engines"],
        "tools": ev["tools"],
        "trusted_base": cfg.get("trusted_base", []) + [
            "Kani 0.68.0 MIR->goto translation", "CBMC 6.11.0 + CaDiCaL", "rustc nightly-2026-08-21 (Kani toolchain)",
            "the stubs listed under stubs"],
        "outside_claim": cfg.get("outside_claim", []),
        "repo": repo_state(),
        "source_digests": ev["source_digests"],
        "known_findings": verdict["known"],
        "exhaustive": False,
        "partial_run": partial,
    }
    cov.update(ev["extra"])
    doc = {"property_id": pid, "tier": tier, "seed": seed, "level": cfg.get("level", "model_checking"),
           "coverage": cov, "assumptions": cfg.get("assumptions", []), "wall_s": round(wall, 1),
           "violations": len(verdict["violations"])}
    with open(os.path.join(EVID, pid + ".json"), "w") as f:
        json.dump(doc, f, indent=1, ensure_ascii=False, default=str)


def do_replay_json(pid, path, d):
    """Replays of the SMT / differential engines: recompile (or re-evaluate) with the CURRENT tree."""
    overlay.lock()
    import c03
    binary, err, _t = c03.build_driver()
    if err:
        print("INCONCLUSIVE: " + err)
        return 2
    kind = d.get("kind")
    if kind == "c03b":
        import model
        c03.NOTHROW.clear()
        c03.NOTHROW.update(model.cannot_throw())
        res, _rc = c03.run_driver(binary, [d["program"]], "replay")
        r = res.get(0)
        if not r or r["status"] != "ok":
            print("replay: program no longer compiles: %r" % (r,))
            return 2
        optypes = c03.optypes_from_source()
        z3 = c03.Solver(["z3", "-in"], "z3")
        bad = 0
        for blk in r["blocks"]:
            body = c03.Body(blk, optypes)
            smt, names, _n = body.smt()
            v, core, e = z3.check(smt, True)
            print("replay: body %r -> %s" % (blk["name"], v))
            if v == "unsat":
                bad += 1
                for c in core[:8]:
                    if c in names:
                        print("   " + names[c][1])
        z3.close()
        if bad:
            print("VIOLATION property=%s replay=%s" % (pid, path))
            return 1
        print("replay passes on the current tree")
        return 0
    if kind == "c03b-panic":
        res, _rc = c03.run_driver(binary, [d["program"]], "replay")
        r = res.get(0)
        print("replay: %r" % ({k: v for k, v in (r or {}).items() if k != "blocks"},))
        if r and r["status"] == "panic":
            print("VIOLATION property=%s replay=%s" % (pid, path))
            return 1
        return 0
    if kind == "c05-dup":
        import c05
        res = c05.eval_both(binary, d["program"])
        print("replay: %r" % (res,))
        if res.get("optimized") != res.get("unoptimized"):
            print("VIOLATION property=%s replay=%s" % (pid, path))
            return 1
        print("replay passes on the current tree")
        return 0
    if kind == "c05-fp":
        print("replay: SMT counterexample (model) for a float rewrite; re-run ./check %s to re-decide" % pid)
        return 0
    print("unknown replay kind")
    return 2
