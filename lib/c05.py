"""Engine F for C05: the float identity behind each rewrite the REAL StrengthReduction pass performs, decided
by z3 and cvc5 over all doubles.  The rewritten operator and constant are read off the real pass by running it
natively (probe injected into the overlay, see c05/probe.rs)."""
import os
import subprocess
import sys
import time

VERIF = os.path.dirname(os.path.dirname(os.path.abspath(__file__)))
sys.path.insert(0, os.path.join(VERIF, "lib"))

FP_OP = {"Mul": "fp.mul", "Div": "fp.div", "Add": "fp.add", "Sub": "fp.sub"}
LITERALS = [-4, -2, -1, 0, 1, 2, 3, 4, 5, 8, 10, 16, 256, 1024, 65536, 2 ** 30, -(2 ** 31), 2 ** 31 - 1]


def smt_identity(op_from, lit, op_to, const_bits):
    """∀ x: Float64.  x op_from L  ==  x op_to c   (SMT-LIB `=` on FP: one NaN, -0 ≠ +0)."""
    return """(set-logic QF_FP)
(declare-const x (_ FloatingPoint 11 53))
(define-fun l () (_ FloatingPoint 11 53) ((_ to_fp 11 53) RNE %s))
(define-fun c () (_ FloatingPoint 11 53) ((_ to_fp 11 53) #x%016x))
(assert (not (= (%s RNE x l) (%s RNE x c))))
(check-sat)
""" % (("%d.0" % lit) if lit >= 0 else "(- %d.0)" % -lit, const_bits, FP_OP[op_from], FP_OP[op_to])


def run_solver(cmd, text, timeout=300):
    t0 = time.time()
    try:
        p = subprocess.run(cmd, input=text.encode(), stdout=subprocess.PIPE, stderr=subprocess.STDOUT, timeout=timeout)
        out = p.stdout.decode(errors="replace")
    except subprocess.TimeoutExpired:
        return "timeout", "", time.time() - t0
    first = out.strip().split("\n")[0] if out.strip() else ""
    if "(error" in out:
        return "error", out, time.time() - t0
    return first, out, time.time() - t0


OP_JS = {"Div": "/", "Exp": "**", "Mul": "*", "Add": "+", "Sub": "-", "Mod": "%"}


def eval_both(binary, program):
    path = os.path.join(os.path.dirname(binary), "..", "..", "c05-witness.js")
    path = os.path.normpath(path)
    with open(path, "w") as f:
        f.write(program)
    p = subprocess.run([binary, "--eval-both", path], stdout=subprocess.PIPE, stderr=subprocess.STDOUT, timeout=120)
    out = {}
    for line in p.stdout.decode(errors="replace").split("\n"):
        if line.startswith("optimized "):
            out["optimized"] = line[len("optimized "):]
        elif line.startswith("unoptimized "):
            out["unoptimized"] = line[len("unoptimized "):]
    return out


OTHER_JS = {"Ident": None, "Int": "7", "Num": "1.5", "BigInt": "3n", "Str": "'arguments'", "Null": "null"}
# operand values for the differential witness runs of a rewrite whose non-literal operand is an identifier
WITNESS_VALUES = ["0", "-0", "1", "-7", "2.5", "NaN", "Infinity", "-Infinity", "5e-324", "1e308", "2147483647", "-2147483648",
                  "3n", "0n", "'5'", "''", "'x'", "null", "undefined", "true", "[]", "({})"]


def witness_programs(op, lit, other, lit_left):
    js = OP_JS[op]
    def expr(x):
        return ("(%d %s %s)" % (lit, js, x)) if lit_left else ("(%s %s %d)" % (x, js, lit))
    show = "function show(v) { return typeof v + ':' + (Object.is(v, -0) ? '-0' : String(v)); } "
    progs = []
    if other == "Ident":
        for val in WITNESS_VALUES:
            progs.append(show + "var x = %s; var out; try { out = show%s; } catch (e) { out = e.name; } out" % (val, expr("x")))
        progs.append(show + "var c = 0; var x = { valueOf() { c++; return 3; } }; var out; try { out = show%s + ',calls=' + c; } catch (e) { out = e.name; } out" % expr("x"))
    else:
        progs.append(show + "var out; try { out = show%s; } catch (e) { out = e.name; } out" % expr(OTHER_JS[other]))
    return progs


def engine(pid, tier, seed, verdict, ev, only):
    import c03
    import json
    t0 = time.time()
    binary, err, build_s = c03.build_driver()
    if err:
        verdict["inconclusive"].append("C05: " + err)
        return
    lits = LITERALS if tier == "quick" else sorted(set(LITERALS + list(range(-40, 41)) + [2 ** k for k in range(31)]))
    p = subprocess.run([binary, "--sr-probe"] + [str(x) for x in lits], stdout=subprocess.PIPE, stderr=subprocess.PIPE, timeout=900)
    lines = [l for l in p.stdout.decode().split("\n") if l.strip()]
    if len(lines) != 72 * len(lits):
        verdict["inconclusive"].append("C05: probe produced %d lines, expected %d" % (len(lines), 72 * len(lits)))
        return
    rewrites = []
    for line in lines:
        parts = line.split()
        # <op> <literal> <other-kind> <LitLeft|LitRight> Keep | ... Replace <newop> <rhs-kind> <rhs-value>
        if parts[4] != "Keep":
            rewrites.append({"op": parts[0], "lit": int(parts[1]), "other": parts[2], "lit_left": parts[3] == "LitLeft", "action": parts[4],
                             "new_op": parts[5] if len(parts) > 5 else "", "rhs_kind": parts[6] if len(parts) > 6 else "",
                             "rhs": parts[7] if len(parts) > 7 else ""})
    identities = {}
    witnesses = 0
    mismatches = 0
    for r in rewrites:
        desc0 = "%s with a %s operand and the literal %d on the %s -> %s %s %s" % (
            OP_JS.get(r["op"], r["op"]), r["other"], r["lit"], "left" if r["lit_left"] else "right", r["new_op"], r["rhs_kind"], r["rhs"])
        if r["action"] != "Replace":
            verdict["inconclusive"].append("C05: unexpected pass action: " + desc0)
            continue
        # (1) every observed rewrite is validated by differential runs of the REAL engine (optimizer on / off) on witness programs
        for prog in witness_programs(r["op"], r["lit"], r["other"], r["lit_left"]):
            res = eval_both(binary, prog)
            witnesses += 1
            if len(ev["extra"].setdefault("witness_programs", [])) < 30:
                ev["extra"]["witness_programs"].append({"program": prog[-160:], "result": res})
            if "optimized" not in res or "unoptimized" not in res:
                verdict["inconclusive"].append("C05: witness program did not run: %r" % (res,))
                continue
            if res["optimized"] != res["unoptimized"]:
                mismatches += 1
                if mismatches <= 3:
                    d = os.path.join(VERIF, "replays", pid)
                    os.makedirs(d, exist_ok=True)
                    path = os.path.join(d, "c05_diff_%s_%d_%s_%d.json" % (r["op"], r["lit"], r["other"], witnesses))
                    json.dump({"kind": "c05-dup", "rewrite": r, "program": prog, "result": res}, open(path, "w"), indent=1)
                    verdict["violations"].append({"replay": path, "what": "rewrite of %s changes behaviour: witness %r evaluates to %s with the optimizer and %s without" % (
                        desc0, prog[-120:], res["optimized"], res["unoptimized"])})
        # (2) float rewrites of the form  x op L -> x op' c  additionally get an SMT identity over ALL doubles
        if r["rhs_kind"] == "Num" and r["op"] in FP_OP and r["new_op"] in FP_OP and not r["lit_left"]:
            key = (r["op"], r["lit"], r["new_op"], r["rhs"])
            identities.setdefault(key, []).append(r["other"])
    n_q = 0
    for (op, lit, new_op, rhs), lhss in identities.items():
        text = smt_identity(op, lit, new_op, int(rhs))
        a, out_a, ta = run_solver(["z3", "-in"], text)
        b, out_b, tb = run_solver(["cvc5", "--lang", "smt2", "--produce-models"], text)
        n_q += 2
        ev["queries"] += 2
        ev["solver_time_s"] += ta + tb
        ev["obligations"] += 1
        desc = "∀ x∈Float64: x %s %d == x %s %r (operator and constant reported by the real pass for operands %s)" % (
            OP_JS[op], lit, OP_JS[new_op], _f(int(rhs)), "/".join(sorted(set(lhss))))
        if a == "unsat" and b == "unsat":
            ev["discharged"] += 1
            ev["samples"].append({"harness": "c05_fp_identity", "domain": "∀ x ∈ all 2^64 doubles (QF_FP, RNE; one NaN, -0 ≠ +0)", "claim": desc,
                                  "bounds": "none", "z3_s": round(ta, 2), "cvc5_s": round(tb, 2)})
            ev["nontrivial"].add(("c05F", desc, "z3 unsat"))
            ev["nontrivial"].add(("c05F", desc, "cvc5 unsat"))
        elif a == "sat" and b == "sat":
            _m, out_m, _t = run_solver(["z3", "-in"], text + "(get-model)\n")
            path = write_replay(pid, {"op": op, "lit": lit, "new_op": new_op, "rhs": rhs}, out_m)
            verdict["violations"].append({"replay": path, "what": "rewrite is not value preserving on doubles: %s; counterexample %s" % (desc, out_m.replace("\n", " ")[:300])})
        else:
            verdict["inconclusive"].append("C05: solvers disagree or failed on %s: z3=%s cvc5=%s" % (desc, a, b))
    ev["engines"].append({"engine": "probe+smt-fp+differential-replay", "wall_s": round(time.time() - t0, 1), "rewrites_observed": rewrites[:40],
                          "literals_probed": len(lits), "probe_cases": len(lines), "witness_runs": witnesses})
    ev["cmds"].append("verif_c03 --sr-probe <literals> ;; z3 -in ;; cvc5 --lang smt2 ;; verif_c03 --eval-both <witness.js>")
    ev["extra"].update({"programs": len(lines), "disagreements_checked": n_q // 2 + witnesses, "rewrites_observed": len(rewrites)})
    ev["samples"].append({"harness": "c05_probe", "domain": "for each op ∈ {/,**,*,+,-,%%} × literal ∈ %d int32 values × literal side ∈ {left,right} × other operand kind ∈ {identifier, int, double, bigint, string, null}" % len(lits),
                          "claim": "the real pass rewrites only the cases listed under rewrites_observed; each is validated by differential runs of the real engine (optimizer on/off) over %d operand values, float rewrites additionally by an SMT identity over all doubles" % len(WITNESS_VALUES),
                          "bounds": "probe set and witness values are enumerated, not symbolic"})


def _f(bits):
    import struct
    return struct.unpack("<d", struct.pack("<Q", bits))[0]


def write_replay(pid, r, model):
    d = os.path.join(VERIF, "replays", pid)
    os.makedirs(d, exist_ok=True)
    path = os.path.join(d, "c05_fp_%s_%d.json" % (r["op"], r["lit"]))
    import json
    json.dump({"kind": "c05-fp", "rewrite": r, "model": model}, open(path, "w"), indent=1)
    return path
