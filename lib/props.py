"""Per-property configuration (what is run, what is outside the claim).  MANIFEST.json is generated
from this file by lib/mkmanifest.py."""

PROPS = {}

ENGINES = [
    {"name": "kani", "path": "/verif/lib/kani.py",
     "serves_properties": [],
     "kind_free_text": "Engine K: Kani 0.68 / CBMC 6.11 bounded model checking of the real Rust code, harnesses injected as "
                       "cfg(kani) child modules into an overlay copy of /repo's working tree; counterexamples replayed natively"},
]

NOTES = ("Technique family: solver-based checking of the real code. Every verdict is a SAT/SMT verdict over all values of "
         "the symbolic inputs within the bounds recorded in evidence; program/history-level quantifiers of the properties "
         "are outside the claim unless stated (see level_note per check and DESIGN.md). exit 2 = inconclusive (never a pass).")

NA = {
    "C04": "binding placement/shortcut decisions live in the scope analyser and ByteCompiler over a heap AST with the interner; neither can be executed symbolically with Kani 0.68 and the differential oracle needs two whole-engine runs (DESIGN.md §5)",
    "C06": "inline-cache validity rests on Gc/WeakGc shape identity across mutation histories; no Gc allocation compiles under Kani 0.68 (TypeId const in the GC vtable, DESIGN.md §2.3) and the remaining pure slot arithmetic does not decide cache transparency",
    "C07": "handle_return/throw/error operate on Vec<CallFrame> whose elements own Gc<CodeBlock>, Realm and environments; a valid pre-state cannot be constructed without the GC heap and histories need Context (DESIGN.md §5)",
    "C08": "loop-counter emission is a compiler-output fact and limit propagation is VM/native re-entry behaviour; both need Context; the remaining integer comparisons do not decide the property (DESIGN.md §5)",
    "C10": "needs the collector and every engine Trace impl under the solver; GcBox::new does not compile under Kani 0.68 (DESIGN.md §2.3)",
    "C16": "SimpleJobExecutor, reaction jobs and the budgeted run loop all execute through Context and Gc-allocated promises; not encodable (DESIGN.md §5)",
    "C17": "the module SCC state machine is stored in Gc module records and driven through promises/Context; not encodable (DESIGN.md §5)",
    "C18": "attempted and withdrawn: QuoteJSONString (the only Context-free kernel of JSON) grows a Vec<u16> and allocates heap JsStrings with symbolic lengths; CBMC symbolic execution did not finish within 15 min even for 1-code-unit strings (harness kept under harness_unused/), and JSON.parse / the object serialisers need Context and the GC heap (DESIGN.md §9.7)",
    "C19": "not attempted within this technique's reach: every lexer/parser entry point interns through boa_interner (220 s per get_or_intern under CBMC, or an ICE without the thread_cleanup stub) and builds a heap AST; the printer/re-parser needs the same; no kernel of parse totality or print/parse idempotence is separable at useful bounds (DESIGN.md §2.3, §9.7)",
    "C20": "a statement about two whole-engine runs and realm heaps; no kernel of it is separable for a solver (DESIGN.md §5)",
}

COMMON_ASSUME = [
    "Kani models the dev profile (debug assertions and overflow checks on); counterexamples are replayed natively in dev and release",
    "harnesses are single-threaded; std::rt::thread_cleanup is stubbed where a TLS destructor is reachable",
]

PROPS["C11"] = {
    "level": "model_checking",
    "kani": [
        {"package": "boa_string", "flags": [], "tags": ["c11a", "c11c", "c11d"]},
    ],
    "assumptions": COMMON_ASSUME + [
        "bounded: strings of at most N code units (N per harness in coverage.bounds); longer strings are outside the claim",
    ],
    "outside_claim": [
        "strings longer than the stated bounds",
        "JS-level observers (String.prototype.*, normalize, localeCompare)",
    ],
    "trusted_base": [],
    "manifest": {
        "text": "Bounded model checking (Kani/CBMC) of the real boa_string code against a plain [u16] model, over the full 8/16-bit "
                "alphabets and both internal representations: Eq/Ord/Hash and `== str` for all strings of <= 3 units (5 thorough); "
                "index_of/starts_with/ends_with for every representation pair (lengths, start index and pair enumerated per harness, "
                "contents symbolic); get/ranges/code_point_at/contains/to_vec/iter; on the heap layer JsString::slice for ALL usize "
                "ranges (clamping makes slice_unchecked safe) and mixed-encoding concat. The solver decides the whole input space "
                "inside each bound, which is where representation-dependent defects (byte >= 0x80, length mismatch, prefix cases) live.",
        "note": "Bound: strings <= 3 code units (search: haystack 3 / needle <= 2). Trusted: Kani MIR->goto translation, CBMC+CaDiCaL, the "
                "get_string->None stub for JsString harnesses. Outside: longer strings, builders, trim/to_std_string/to_number, JS-level String builtins.",
        "technique": "bounded model checking of the compiled Rust (Kani/CBMC, SAT), differential vs [u16] reference model",
        "design_ref": "DESIGN.md §4 C11",
    },
}

ENGINE_FLAGS = ["--no-default-features"]

PROPS["C12"] = {
    "level": "model_checking",
    "kani": [
        {"package": "boa_engine", "flags": ENGINE_FLAGS, "tags": ["model", "c12a", "c12b", "c12c", "pubhelp"]},
        {"package": "boa_engine", "flags": ENGINE_FLAGS + ["--features", "jsvalue-enum"], "tags": ["model", "c12a"]},
    ],
    "assumptions": COMMON_ASSUME + [
        "heap variants (object/string/symbol/bigint) are covered only at the pointer-tag level: no Gc allocation compiles under Kani 0.68",
    ],
    "outside_claim": [
        "whole-program equivalence of the NaN-boxed and enum builds (only the primitive constructor/observer API is compared, against one model)",
        "heap values beyond the tag/untag round trip of their 48-bit address",
    ],
    "trusted_base": ["integer-arithmetic reference model harness/core/engine/src/lib.rs.model.kani.rs"],
    "manifest": {
        "text": "Bounded model checking (no bound needed: loop-free code) of the real JsValue constructors/observers over ALL 2^32 "
                "int32s, ALL 2^64 double bit patterns (so every NaN payload that coincides with a pointer/int tag is inside the "
                "quantifier), all integer widths, booleans, null, undefined, and of the NaN-box bit layer (kind predicates "
                "partition the raw patterns; 48-bit pointer tags round-trip; wider addresses panic). The same harness source "
                "is verified against the NaN-boxed build and the jsvalue-enum build. The typed-array read path (From<TypedArrayElement> "
                "for JsValue) is checked for all bit patterns of the nine Number element kinds.",
        "note": "Trusted: Kani/CBMC, the integer reference model. Outside: heap variants beyond address tagging (no Gc under "
                "Kani), program-level equivalence of the two representations.",
        "technique": "bounded model checking of the compiled Rust (Kani/CBMC, SAT) over the full 32/64-bit input domains, both feature configurations",
        "design_ref": "DESIGN.md §4 C12",
    },
}


PROPS["C09"] = {
    "level": "model_checking",
    "kani": [{"package": "boa_gc", "flags": [], "tags": ["c09a", "c09b"]}],
    "assumptions": COMMON_ASSUME + [
        "inductive step: the pre-state is ANY header satisfying Inv (non_root_count <= ref_count <= 2^31-1), so histories of any length are covered for the header arithmetic only",
        "dec_ref_count preserves Inv only when the object is rooted (rc > non_root_count); a finalizer dropping an in-heap handle mid-collection is outside this precondition",
    ],
    "outside_claim": [
        "Collector::collect, mark_heap, the ephemeron fix-point, weak maps, finalizer resurrection, sweep: every one allocates a GcBox, which Kani 0.68 cannot compile (TypeId in the GC vtable const, DESIGN.md §2.3). The graph-shaped quantifier of C09 is NOT addressed.",
    ],
    "trusted_base": [],
    "manifest": {
        "text": "Model checking of the two pure kernels the collector's correctness rests on: (1) GcHeader, as a one-step inductive "
                "invariant from an arbitrary valid header (all 2^64 raw (ref_count, non_root_count|mark) pairs satisfying Inv) under "
                "each of its 6 operations: counts change exactly as specified, the mark bit never leaks into the count, "
                "is_rooted <=> non_root_count < ref_count, saturation instead of overflow; (2) GcRefCell's borrow flag from an "
                "arbitrary flag value: shared XOR exclusive, guards restore the flag, reader overflow panics. "
                "This is a kernel-level claim only; the collector itself cannot be encoded with the installed tools.",
        "note": "Trusted: Kani/CBMC. Outside (explicitly): the mark/sweep/ephemeron algorithm over heap graphs - not decided by this check.",
        "technique": "bounded model checking (Kani/CBMC, SAT) of one inductive step from an arbitrary symbolic pre-state",
        "design_ref": "DESIGN.md §4 C09",
    },
}

PROPS["C01"] = {
    "level": "model_checking",
    "kani": [{"package": "boa_engine", "flags": ENGINE_FLAGS, "tags": ["model", "c01a", "c01c", "c01d", "c01e"]},
             # equality.rs is representation independent source; under the NaN-boxed build its four variant() calls per
             # relation blow CBMC up (DESIGN 9.1), so it is checked in the jsvalue-enum configuration
             {"package": "boa_engine", "flags": ENGINE_FLAGS + ["--features", "jsvalue-enum"], "tags": ["model", "c01f", "c01g", "pubhelp"]}],
    "assumptions": COMMON_ASSUME + [
        "operands are Numbers (Integer32 / Float64); coercion of other types is outside",
        "Float64 results of int-specialised paths are compared with the syntactically identical IEEE expression on the converted operands; integer results against exact i64 arithmetic",
    ],
    "outside_claim": [
        "the program quantifier of C01 in its entirety: parsing, scope analysis, compilation, control flow, closures/TDZ, generators, classes, destructuring, entry modes",
        "coercions of non-Number operands (ToPrimitive/ToNumeric need Context), BigInt and String operators",
        "int32 / and % with BOTH operands symbolic are decided only for panic-freedom; functionally one side is enumerated (DESIGN.md §2.3)",
        "pow beyond panic-freedom (powi/powf are over-approximated intrinsics in Kani)",
    ],
    "trusted_base": ["integer-arithmetic reference model harness/core/engine/src/lib.rs.model.kani.rs", "CBMC's IEEE-754 float theory for the Float64 branches"],
    "manifest": {
        "text": "Kernel-level claim only. Bounded model checking of the Number x Number operator kernels the VM and the constant folder "
                "call (value/operations.rs fast paths, ToInt32/ToUint32, Number::equal/sameValue/sameValueZero/lessThan): for ALL int32 "
                "pairs and ALL double bit patterns each operator returns what ECMAScript Number::op specifies (exact integer model, "
                "-0 and overflow side conditions, IEEE relations as integer comparisons of bit patterns) and never panics "
                "(this is where `-2147483648 % -1` lives); plus JsValue::neg for all Numbers; in the jsvalue-enum configuration also strict_equals/same_value/same_value_zero for all Number "
                "pairs and the general JsValue operator methods (add..ushr, lt..ge) for all int32 pairs with the coercions stubbed unreachable. The program-level quantifier of C01 is NOT decided.",
        "note": "Trusted: Kani/CBMC incl. its float theory, the integer reference model. Outside: everything above the operator kernels "
                "(parser, compiler, VM control flow, coercions of non-Number operands).",
        "technique": "bounded model checking of the compiled Rust (Kani/CBMC, SAT) over full int32^2 / double domains vs integer-domain spec model",
        "design_ref": "DESIGN.md §4 C01",
    },
}

PROPS["C15"] = {
    "level": "model_checking",
    "kani": [{"package": "boa_engine", "flags": ENGINE_FLAGS, "tags": ["model", "c15a", "c01d", "c15d", "c15c", "c15e", "c15f"]}],
    "assumptions": COMMON_ASSUME + [
        "JsValue::to_number is stubbed to the identity on Numbers (the real one returns exactly that for a Number without touching Context); a &mut Context placeholder is passed that must never be dereferenced",
        "TypedArray / DataView are partially initialised (kind, byte_offset, byte_length, array_length); viewed_array_buffer is never read by the kernels under test",
        "byte offsets, lengths and buffer sizes are at most 2^53 (the allocation-time cap); copy buffers are 24 bytes with the stated offsets, counts symbolic",
    ],
    "outside_claim": [
        "sequences of buffer creation/resize/transfer/detach, %TypedArray% methods, Atomics: need Context and the GC heap (the bounds kernels ARE checked against an arbitrary current buffer length, which is what a resize changes)",
        "BigInt64/BigUint64 conversions (num-bigint arithmetic), Float16 conversions, the DataView accept test itself (inline in get/set_view_value, which need Context; only the window it relies on is checked)",
        "non-Number operands (coercion needs Context); copy lengths above 24 bytes",
    ],
    "trusted_base": ["integer-arithmetic reference model harness/core/engine/src/lib.rs.model.kani.rs", "the to_number stub", "CBMC's memory model for pointer/alignment checks"],
    "manifest": {
        "text": "Kernel-level claim over the three mechanisms the property rests on. (1) Element conversions "
                "(to_int8/uint8/int16/uint16/i32/u32/uint8_clamp): for ALL Numbers (every int32, every one of the 2^64 double bit patterns) the "
                "stored element equals trunc(x) mod 2^k from an integer model of the IEEE encoding (round-half-even clamp for Uint8Clamped) - "
                "where the saturating-cast defect lived. (2) Bounds arithmetic (is_out_of_bounds, array_length, byte_length, "
                "validate_index, validate_index_u64): for ALL cached (offset, length|auto, element kind) and ALL current buffer lengths "
                "<= 2^53 and ALL u64 / double indices, an accepted index addresses bytes inside the buffer, -0/NaN/fractions/negatives are rejected, no "
                "overflow. (3) Raw byte movers (memcpy in 3 shared/plain combinations, memmove, memmove_naive, compute_batch_offsets): on 24-byte "
                "buffers with ALL contents and ALL counts the result equals the byte model, nothing outside the destination changes and every "
                "access is in bounds and aligned for every object alignment (CBMC pointer checks). (4) The typed-array-to-typed-array element cast "
                "(TypedArrayKind::to_element_f64 / TypedArrayElement::cast, used by `new Int8Array(otherTypedArray)`) for ALL doubles per target "
                "kind against the same modular model, and DataView's is_out_of_bounds/byte_length window for ALL offsets, lengths and "
                "buffer sizes <= 2^53. Buffer/view HISTORIES are NOT decided.",
        "note": "Trusted: Kani/CBMC incl. its memory model, the integer reference model, the to_number stub, partial initialisation of TypedArray. "
                "Outside: resize/detach/transfer histories as such, TypedArray builtins, Atomics, BigInt/float element types.",
        "technique": "bounded model checking of the compiled Rust (Kani/CBMC, SAT): full double/int domains vs integer spec model; symbolic view state vs bounds model; symbolic buffers vs byte model with pointer checks",
        "design_ref": "DESIGN.md §4 C15, §9",
    },
}


def _c03_engine(*a, **k):
    import c03
    return c03.engine(*a, **k)


def _c03_gen(tier):
    import sys, os
    sys.path.insert(0, os.path.join(os.path.dirname(os.path.dirname(os.path.abspath(__file__))), "c03"))
    import gen_kani
    return {"core/engine/src/vm/opcode/mod.rs::c03a": gen_kani.generate(tier).encode()}


PROPS["C03"] = {
    "level": "model_checking",
    "kani": [{"package": "boa_engine", "flags": ENGINE_FLAGS, "tags": ["c03r"], "generate": _c03_gen,
              "timeout": {"quick": 1200, "thorough": 1800}}],
    "engines": [_c03_engine],
    "assumptions": COMMON_ASSUME + [
        "C03(b): the PROGRAM quantifier is a corpus (JS literals of the repo's tests + deterministic grammar enumeration + VERIF_SEED-seeded samples), not symbolic; the solver's quantifier is 'all CFG paths of each compiled body'",
        "C03(b): stack effects of opcodes (c03/model.py DELTA) are a hand model of the VM handlers, kept in sync with the handler sources by a source scan on every run",
        "C03(b): every instruction inside a handler range may throw (conservative exceptional edges); at handler entry environments are truncated to env_fp+environment_count and the binding-reference stack is modelled as at the range start (the VM does not truncate it: entries pushed in the range stay below later pushes)",
        "C03(b): entry environment depth is a free constant base in [0,2] per body (function-scope prologue is pushed by the VM, not by bytecode)",
    ],
    "outside_claim": [
        "programs not in the corpus",
        "the VM handlers' real stack effects (trusted DELTA table)",
        "value-stack (argument) depth and the iterator stack",
        "operands listed under coverage.unchecked_operands",
    ],
    "trusted_base": ["z3 4.8.12 cross-checked with cvc5 1.0", "c03/model.py (DELTA, control-flow classes, operand->table map)"],
    "manifest": {
        "engine": "kani+smt",
        "text": "Two layers. (a) Bounded model checking (Kani) of the bytecode encoding layer generated from the current generate_opcodes! "
                "list: emit_X(args) -> next_instruction round trip for every operand shape, jump patching, register allocator "
                "one-step invariants. (b) For every body compiled by the REAL parser/compiler from a corpus, one SMT instance "
                "(z3, re-decided by cvc5) that is satisfiable iff all structural obligations hold (decode closure, operands inside "
                "their tables and of the right constant kind, jump/handler targets at instruction starts) AND an environment-depth "
                "and binding-reference-depth assignment exists that is consistent on EVERY control-flow path including exceptional "
                "edges: the all-paths quantifier a test cannot reach. An unsat core names the conflicting edges.",
        "note": "Program quantifier = corpus (stated). Trusted: hand model of handler stack effects (source-synced), z3/cvc5. "
                "Outside: value-stack and iterator-stack depth, programs outside the corpus.",
        "technique": "SMT (z3 + cvc5) all-paths depth-consistency constraint system per compiled body; Kani/CBMC for the opcode encoding layer",
        "design_ref": "DESIGN.md §2.2, §4 C03",
    },
}

PROPS["C13"] = {
    "level": "model_checking",
    "kani": [{"package": "boa_engine", "flags": ENGINE_FLAGS, "tags": ["model", "c13a", "c01d"]},
             {"package": "boa_string", "flags": [], "tags": ["c13s"]}],
    "assumptions": COMMON_ASSUME + [
        "digit strings are ASCII (the caller has already trimmed whitespace, sign and prefix)",
    ],
    "outside_claim": [
        "Number -> text: ryu-js shortest round trip, to_js_string_radix, toFixed/toExponential/toPrecision (float formatting loops and Context; the defects the property lists there are NOT decided)",
        "decimal text -> Number via fast-float2 (Number(), parseFloat, numeric literals); the prefix/whitespace dispatch of JsStr::to_number around the digit kernel",
        "non-decimal literals longer than 32 hex digits (the dropped-digit path multiplies by powi, an over-approximated intrinsic in Kani)",
        "digit strings longer than the stated bounds",
    ],
    "trusted_base": ["Rust's u128/u64 -> f64 `as` conversion is correctly rounded"],
    "manifest": {
        "text": "Kernel-level claim. Bounded model checking of the integer text->Number kernels: parseInt's digit accumulation "
                "(from_js_str_radix) for ALL radices 2..36 on all ASCII strings up to 4 characters (accept/reject and exact value), at the "
                "16-digit overflow boundary of its exact path for radix 10 and 16, and beyond 2^53 / beyond 64 bits (radix 32 with 12 and 22 digits, "
                "radix 16 with 27, radix 10 with 20; more in the thorough tier) against exact 128-bit integer arithmetic followed by one "
                "correctly rounded conversion; plus ToInt32 for all 2^64 doubles; plus StringToNumber's 0b/0o/0x digit kernel "
                "(parse_non_decimal_digits): ALL 3-byte strings per base (accept/reject incl. signs, exact value) and exact rounding at 14/16 hex, "
                "22 octal, 60 binary and 32 hex digits (128 bits). The formatting direction and decimal StringToNumber are NOT decided.",
        "note": "Trusted: Kani/CBMC float theory, Rust integer->float conversion. Outside: ryu-js, fast-float2, toFixed/toPrecision/"
                "toExponential, toString(radix).",
        "technique": "bounded model checking of the compiled Rust (Kani/CBMC, SAT) vs exact 128-bit integer model",
        "design_ref": "DESIGN.md §4 C13",
    },
}


def _c05_engine(*a, **k):
    import c05
    return c05.engine(*a, **k)


PROPS["C05"] = {
    "level": "translation_validation",
    "kani": [],
    "engines": [_c05_engine],
    "assumptions": COMMON_ASSUME + [
        "operands of the rewritten expression are an identifier reference or an int32 literal; the rewrite decision of the pass depends only on the node kinds and the literal, which are what the harness quantifies over",
    ],
    "outside_claim": [
        "ConstantFolding (evaluates literals through Context and the interner) and DeadCodeElimination / hoisting",
        "whole-program optimised-vs-unoptimised trace equality",
        "`literal ** 2 -> literal * literal` value equality on doubles (powi/powf are over-approximated intrinsics)",
    ],
    "trusted_base": ["z3 4.8.12 and cvc5 1.0 QF_FP", "the native probe that reports the rewrite the real pass performed"],
    "manifest": {
        "engine": "kani+smt",
        "text": "Translation validation of the StrengthReduction pass. (1) Kani/CBMC runs the REAL pass on symbolic ASTs and characterises "
                "its complete rewrite set: for ALL int32 literals, `/` is rewritten only for 2 and only to `* 0.5` (bit-exact constant), "
                "`**` only for 2 and only when the base is a numeric literal (an identifier base must be kept: `x * x` would evaluate and "
                "convert x twice - the valueOf/BigInt defect named in the property), every other operator is kept. (2) The operator and "
                "constant of each rewrite the real pass reports natively are turned into a QF_FP identity over ALL doubles "
                "(x / 2 == x * 0.5) that z3 and cvc5 must both refute. ConstantFolding and DeadCodeElimination are NOT decided.",
        "note": "Trusted: Kani/CBMC, z3+cvc5 float theories, the probe. Outside: constant folding, DCE, program-level equivalence.",
        "technique": "translation validation: bounded model checking of the real pass on symbolic ASTs (Kani) + SMT QF_FP identity per observed rewrite (z3 and cvc5)",
        "design_ref": "DESIGN.md §4 C05",
    },
}


def _c02_gen(tier):
    g = _c03_gen(tier)
    # re-tag the generated C03(a) harnesses: they already carry props=C03,C02
    return g


PROPS["C02"] = {
    "level": "model_checking",
    "kani": [
        {"package": "boa_gc", "flags": [], "tags": ["c09a", "c09b"]},
        {"package": "boa_engine", "flags": ENGINE_FLAGS, "tags": ["model", "c01a", "c01d", "c01e", "c15a", "c13a", "c03r", "c12a", "c15e", "c15f"],
         "generate": _c02_gen,
         "names": {"quick": ["h01a_add_sub", "h01a_rem_total", "h01a_div_special", "h01a_bitwise_shift", "h01a_compare_int",
                             "h01a_divrem_by_m1", "h01a_divrem_by_min", "h01a_mul_by_m1", "h01a_mul_by_min", "h01b_compare_mixed",
                             "h01d_to_int32", "h01e_number_relations", "h01e_number_not",
                             "h15a_to_int8", "h15a_to_uint8", "h15a_to_int16", "h15a_to_uint16", "h15a_to_i32", "h15a_to_u32", "h15a_to_uint8_clamp",
                             "h13a_digits_r10", "h13a_digits_r36", "h13a_exact_r16_n16", "h13a_exact_r32_n22",
                             "h03r_alloc", "h03r_dealloc", "h03r_finish", "h03a_opcode_decode_total", "h03a_patch_jump",
                             "h03a_rt_jump_table_n2", "h03a_rt_template_create_n2", "h12a_i32_kind", "h12a_f64_kind", "h12a_prims",
                             "h15e_cast_int8", "h15e_cast_uint32", "h15e_cast_uint8clamped", "h15f_dataview_bounds"]}},
        {"package": "boa_string", "flags": [], "tags": ["c11a", "c11c", "c13s"],
         "names": {"quick": ["h11c_access", "h11c_search_h8_n16_3_2_f0", "h11c_search_h16_n8_2_0_f2", "h11c_search_h8_n8_1_2_f0",
                             "h13s_reject_b16", "h13s_hex_n16"]}},
    ],
    "assumptions": COMMON_ASSUME + [
        "panic-freedom is decided per harnessed kernel over that harness' input domain (the kernel's full type domain unless the harness states a precondition no caller can violate); Kani instruments every reachable panic!, unwrap/expect, unreachable!, arithmetic overflow, slice index, pointer dereference and debug_assert!",
    ],
    "outside_claim": [
        "every panic site that needs a Context, a Gc allocation, the parser proper or the VM dispatch loop: e.g. the stale inline-cache index and the recursion-limit EnginePanic quoted in the property are NOT reachable by this check",
        "arbitrary byte strings as source text (lexer/parser totality): the interner and the heap AST are not encodable at useful bounds",
    ],
    "trusted_base": [],
    "manifest": {
        "text": "Kernel-level claim. The harnesses of C01, C03(a), C09, C11, C12, C13, C15 are re-read with the acceptance rule 'no panic, "
                "overflow, out-of-bounds index, failed unwrap/expect, unreachable! or debug_assert! located in /repo code may fail for ANY "
                "input of the harness domain' (Kani instruments all of them); this is the rule that exposed `i32::MIN % -1`. "
                "The quick tier runs a fixed subset (≈ 50 kernels), the thorough tier every harness tagged C02. Source-text level "
                "totality (lexer, parser, compiler, VM) is NOT decided.",
        "note": "Trusted: Kani/CBMC instrumentation of panics and arithmetic checks. Outside: anything that needs Context, the GC heap, the parser or the VM loop.",
        "technique": "bounded model checking of the compiled Rust (Kani/CBMC, SAT): reachability of every panic/overflow/bounds check over full input domains",
        "design_ref": "DESIGN.md §4 C02",
    },
}


PROPS["C14"] = {
    "level": "model_checking",
    "kani": [{"package": "boa_engine", "flags": ENGINE_FLAGS + ["--features", "jsvalue-enum"], "tags": ["c14a", "c14b", "pubhelp"],
              "timeout": {"quick": 1500, "thorough": 1800}}],
    "assumptions": COMMON_ASSUME + [
        "verified in the jsvalue-enum configuration: property_map.rs is representation-independent source, and under the NaN-boxed build every JsValue clone/drop carries heap-pointer arms that make these harnesses intractable (DESIGN.md §9.1, §9.7)",
        "PropertyMap is partially initialised for the set_dense_property harnesses (only indexed_properties; shape/storage are never read by that kernel)",
        "symbolic element payloads are int32; keys are concrete per harness (append, overwrite first/last, remove last, remove absent): a symbolic key keeps the sparse hash-map arms in the formula",
    ],
    "outside_claim": [
        "operation SEQUENCES (covered only through the one-step abstraction on the packed-int form), packed-double and packed-value forms as START states, sparse storage forms (hash maps), holes",
        "the int→double transition through insert() (harnesses kept as tier=never: symbolic execution does not finish); the transition through push_dense IS covered",
        "array exotic [[DefineOwnProperty]] / ArraySetLength, every Array.prototype method, iteration and key order (need Context and the GC heap)",
    ],
    "trusted_base": [],
    "manifest": {
        "text": "Narrow kernel-level claim. Bounded model checking of one IndexedProperties operation from an arbitrary packed-int array of 0..2 "
                "elements with ALL int32 contents: insert of a simple data descriptor (append, overwrite first, overwrite last) with ANY int32 "
                "value, remove (last element, absent key) and push_dense (an int32, then a double: the int→double storage transition): the "
                "abstract index→value map afterwards (values, presence, descriptor flags, the reported 'was present') is what the generic "
                "algorithm gives and the storage form is the expected one. Plus PropertyMap::set_dense_property (the in-range `a[i] = v` fast path) "
                "from a packed-int array for ALL 2^64 doubles (the stored Number reads back SameValue: -0 is not collapsed to the int 0; the other "
                "element and the length are unchanged in whatever storage form results), for all int32 values, for an out-of-range index, and from a "
                "packed-double array for all Numbers. Sequences, sparse forms, holes and all Array builtins are NOT decided.",
        "note": "Verified under --features jsvalue-enum (same property_map.rs source). Trusted: Kani/CBMC. Outside: sparse forms, heap-valued "
                "elements, insert()-driven transitions, Array exotic object and builtins.",
        "technique": "bounded model checking of the compiled Rust (Kani/CBMC, SAT): one step from a symbolic packed-int state vs abstract map",
        "design_ref": "DESIGN.md §4 C14, §9.2",
    },
}
