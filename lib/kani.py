"""Engine K: run Kani/CBMC harnesses over the overlay and classify the results (DESIGN 2.1, 3.3)."""
import json
import os
import re
import shutil
import subprocess
import sys
import time

from overlay import OVERLAY, WORK, VERIF, harness_files, module_ident

TARGET = os.path.join(WORK, "target-kani")
TARGET_PB = os.path.join(WORK, "target-playback")
ENV = dict(os.environ, CARGO_NET_OFFLINE="true", CARGO_TERM_COLOR="never")


class Harness:
    def __init__(self, name):
        self.name = name
        self.tier = "quick"
        self.props = []
        self.bounds = ""
        self.domain = ""
        self.claim = ""
        self.stubs = ""
        self.file = None
        self.tag = None
        self.target = None
        self.weight = 1

    def as_sample(self):
        return {"harness": self.name, "domain": self.domain, "claim": self.claim, "bounds": self.bounds}


def parse_meta_text(text, file=None, tag=None, target=None):
    hs = []
    cur = None
    for line in text.split("\n"):
        m = re.match(r"\s*// @harness (\S+)(.*)$", line)
        if m:
            cur = Harness(m.group(1))
            cur.file, cur.tag, cur.target = file, tag, target
            for kv in m.group(2).split():
                k, _, v = kv.partition("=")
                if k == "tier":
                    cur.tier = v
                elif k == "props":
                    cur.props = v.split(",")
                elif k == "weight":
                    cur.weight = int(v)
            hs.append(cur)
            continue
        m = re.match(r"\s*// @(bounds|domain|claim|stubs) (.*)$", line)
        if m and cur is not None:
            setattr(cur, m.group(1), (getattr(cur, m.group(1)) + " " + m.group(2)).strip())
    return hs


def all_harnesses():
    out = []
    for ap, target, tag in harness_files():
        out += parse_meta_text(open(ap).read(), ap, tag, target)
    return out


def _mem_limit_kb():
    return int(os.environ.get("VERIF_CBMC_MEM_KB", "12000000"))


def default_jobs():
    if os.environ.get("VERIF_JOBS"):
        return max(1, int(os.environ["VERIF_JOBS"]))
    try:
        for l in open("/proc/meminfo"):
            if l.startswith("MemAvailable"):
                gb = int(l.split()[1]) / 1e6
                return max(1, min(os.cpu_count() or 4, 12, int(gb / 6)))
    except Exception:
        pass
    return 4


def run(package, names, cargo_flags=(), jobs=None, harness_timeout=600, total_timeout=3600,
        label="run", playback=False):
    """Run `cargo kani` once for `names` (exact harness function names) in `package`.

    Returns (results: {name: dict}, info: dict).  Never raises on verification failure.
    """
    os.makedirs(TARGET, exist_ok=True)
    out_json = os.path.join(WORK, "kani-%s.json" % label)
    log = os.path.join(WORK, "kani-%s.log" % label)
    for p in (out_json,):
        if os.path.exists(p):
            os.remove(p)
    jobs = jobs or default_jobs()
    cmd = ["cargo", "kani", "-p", package] + list(cargo_flags) + [
        "-Z", "stubbing", "-Z", "unstable-options", "--target-dir", TARGET,
        "--output-format", "terse",
        "--harness-timeout", "%ds" % harness_timeout, "--export-json", out_json]
    if playback:
        # concrete playback is incompatible with --jobs
        cmd += ["-Z", "concrete-playback", "--concrete-playback=print"]
    else:
        cmd += ["-j", str(jobs)]
    for n in names:
        cmd += ["--harness", n]
    shell = "ulimit -v %d; exec timeout %d %s" % (
        _mem_limit_kb(), total_timeout, " ".join("'%s'" % c for c in cmd))
    t0 = time.time()
    with open(log, "w") as lf:
        rc = subprocess.call(["bash", "-c", shell], cwd=OVERLAY, env=ENV, stdout=lf, stderr=subprocess.STDOUT)
    wall = time.time() - t0
    text = open(log, errors="replace").read()
    info = {"cmd": " ".join(cmd), "rc": rc, "wall_s": wall, "log": log, "jobs": jobs}
    results = {}
    data = None
    if os.path.exists(out_json):
        try:
            data = json.load(open(out_json))
        except Exception as e:  # truncated file
            info["json_error"] = str(e)
    if data is None:
        # compile error, ICE, or overall timeout
        info["fatal"] = _fatal_reason(text, rc)
        for n in names:
            results[n] = {"name": n, "status": "inconclusive", "reason": info["fatal"], "failed": [],
                          "covers": [], "stats": {}, "checks": 0, "functions": []}
        return results, info
    info["tools"] = data.get("tools", {})
    by_short = {}
    for r in data.get("verification_results", {}).get("results", []):
        short = r["harness_id"].split("::")[-1]
        by_short[short] = r
    stats = {c["harness_id"].split("::")[-1]: c for c in data.get("cbmc", [])}
    pdet = {c["harness_id"].split("::")[-1]: c.get("property_details", {}) for c in data.get("property_details", [])}
    tests = _extract_playback_tests(text)
    for n in names:
        r = by_short.get(n)
        if r is None:
            why = "harness not reported by kani (timeout, crash or not found)"
            m = re.search(r"(?m)^.*%s.*(timed out|Timeout|TIMEOUT).*$" % re.escape(n), text)
            if m:
                why = "harness timeout after %ds" % harness_timeout
            results[n] = {"name": n, "status": "inconclusive", "reason": why, "failed": [], "covers": [],
                          "stats": {}, "checks": 0, "functions": []}
            continue
        results[n] = _classify(n, r, stats.get(n, {}), pdet.get(n, {}), tests.get(n, []), harness_timeout)
    return results, info


def _fatal_reason(text, rc):
    if rc == 124:
        return "overall timeout"
    m = re.search(r"(?m)^error(\[E\d+\])?: .*$", text)
    if m:
        return "build error: " + m.group(0)[:300]
    if "internal compiler error" in text or "Kani unexpectedly panicked" in text:
        return "Kani ICE"
    return "cargo kani failed rc=%s without JSON export" % rc


def _extract_playback_tests(text):
    """Concrete playback unit tests printed by --concrete-playback=print, grouped by harness."""
    out = {}
    for m in re.finditer(r"(?s)(/// Test generated for harness `([^`]+)`.*?\n#\[test\]\nfn (\w+)\(\) \{.*?\n\})", text):
        body, hid, fname = m.group(1), m.group(2), m.group(3)
        mm = re.search(r"/// Check for `([^`]*)`: (.*)", body)
        kind = mm.group(1) if mm else "?"
        desc = mm.group(2).strip() if mm else ""
        # multi-line panic messages break the generated doc comment: keep only `///` lines before #[test]
        head, _, tail = body.partition("#[test]")
        head = "\n".join(l for l in head.split("\n") if l.startswith("///"))
        body = head + "\n#[test]" + tail
        out.setdefault(hid.split("::")[-1], []).append({"fn": fname, "kind": kind, "desc": desc, "src": body})
    return out


HARNESS_FILE_RE = re.compile(r"verif_kani_")
# Kani enables CBMC's --nan-check and --float-overflow-check by default; a NaN or an infinite result of
# a float operation is not a panic in Rust (and is ordinary in JS), so these are not failures.
IGNORED_CBMC_CHECKS = re.compile(r"^(NaN on |arithmetic overflow on floating-point )")


def _classify(name, r, cst, pdet, tests, harness_timeout):
    checks = r.get("checks", [])
    failed, covers, undet, funcs, ignored = [], [], [], set(), []
    for c in checks:
        st = c.get("status", "")
        cat = c.get("category", "")
        loc = c.get("location", {}) or {}
        f = loc.get("file", "") or ""
        desc = (c.get("description") or "").strip().strip('"')
        if f.startswith(("core/", "utils/")) and not HARNESS_FILE_RE.search(f):
            funcs.add(c.get("function", ""))
        item = {"desc": desc, "file": f, "line": loc.get("line"), "function": c.get("function", ""),
                "category": cat, "status": st}
        if cat == "cover" or st in ("Satisfied", "Unsatisfiable", "Uncoverable", "Unreachable") and cat == "cover":
            covers.append(item)
        elif st == "Failure":
            if IGNORED_CBMC_CHECKS.match(desc):
                ignored.append(item)  # IEEE NaN / infinity results are defined behaviour in Rust and JS
            else:
                failed.append(item)
        elif st in ("Undetermined",):
            undet.append(item)
    res = {"name": name, "failed": failed, "covers": covers, "ignored_float_checks": len(ignored), "checks": len(checks) - len(covers),
           "duration_s": r.get("duration_ms", 0) / 1000.0,
           "stats": cst.get("cbmc_stats") or {}, "functions": sorted(x for x in funcs if x),
           "tests": tests, "kani_status": r.get("status")}
    # -- classification (DESIGN 3.3)
    unwinding = [x for x in failed if x["category"] == "unwind" or "unwinding assertion" in x["desc"]]
    unsupported = [x for x in failed if x["category"] in ("unsupported_construct", "unsupported")
                   or "is not currently supported by Kani" in x["desc"]]
    own = [x for x in failed if x["desc"].startswith("verif:")]
    in_repo = [x for x in failed if x not in own and x not in unwinding and x not in unsupported
               and not HARNESS_FILE_RE.search(x["file"])]
    scaffold = [x for x in failed if x not in own and x not in unwinding and x not in unsupported
                and HARNESS_FILE_RE.search(x["file"])]
    res["unwinding"], res["unsupported"], res["own"], res["in_repo"], res["scaffold"] = \
        unwinding, unsupported, own, in_repo, scaffold
    nerr = len([c for c in checks if c.get("status") == "Error"])
    only_ignored = r.get("status") != "Success" and not failed and ignored and not nerr and checks
    if r.get("status") == "Success" or only_ignored:
        # (a should_panic harness reports Success together with its expected failed checks)
        failed = []
        bad_cov = [c for c in covers if c["status"] != "Satisfied"]
        if bad_cov:
            res["status"] = "inconclusive"
            res["reason"] = "vacuity: cover not satisfied: " + "; ".join(c["desc"] for c in bad_cov)
        elif undet:
            res["status"] = "inconclusive"
            res["reason"] = "undetermined checks"
        else:
            res["status"] = "discharged"
        return res
    if unwinding:
        res["status"] = "inconclusive"
        res["reason"] = "unwinding assertion failed (bound too small): " + unwinding[0]["function"]
    elif own or in_repo:
        res["status"] = "candidate"
        res["reason"] = "; ".join(sorted(set(x["desc"] for x in (own + in_repo))))[:600]
    elif unsupported:
        res["status"] = "inconclusive"
        res["reason"] = "unsupported construct reached: " + unsupported[0]["desc"][:200]
    elif scaffold:
        res["status"] = "inconclusive"
        res["reason"] = "failure inside harness scaffolding: " + scaffold[0]["desc"][:200]
    else:
        nerr = len([c for c in checks if c.get("status") == "Error"])
        res["status"] = "inconclusive"
        res["reason"] = "kani status %s with no failed check (%d checks in solver-error state: out of memory, timeout after %ds or solver crash)" % (
            r.get("status"), nerr, harness_timeout)
    return res


# ------------------------------------------------------------------------------------------------
# replay


def _strip_cover_tests(tests):
    return [t for t in tests if t["kind"] != "cover"]


def replay_tests(package, harness, tests, cargo_flags=(), label="replay", profiles=("dev", "release")):
    """Append the generated playback tests to the harness module in the overlay and run them
    natively.  Returns list of {fn, desc, dev: bool, release: bool, output}. True = test FAILED
    natively (i.e. the counterexample reproduces)."""
    # find the overlay file of the harness
    path = None
    for root, _d, files in os.walk(os.path.join(OVERLAY, "core")):
        for fn in files:
            if fn.startswith("verif_kani_") and fn.endswith(".rs"):
                p = os.path.join(root, fn)
                if re.search(r"\b%s\b" % re.escape(harness.name if hasattr(harness, "name") else harness), open(p).read()):
                    path = p
    if path is None:
        return []
    orig = open(path).read()
    out = []
    try:
        with open(path, "a") as f:
            f.write("\n// ---- concrete playback tests (generated) ----\n")
            for t in tests:
                f.write(t["src"] + "\n")
        for t in tests:
            rec = {"fn": t["fn"], "desc": t["desc"], "kind": t["kind"]}
            for prof in profiles:
                cmd = ["cargo", "kani", "playback", "-Z", "concrete-playback", "-p", package] + \
                    [x for x in cargo_flags] + (["--release"] if prof == "release" else []) + ["--", t["fn"]]
                env = dict(ENV, CARGO_TARGET_DIR=TARGET_PB, RUST_BACKTRACE="0")
                p = subprocess.run(cmd, cwd=OVERLAY, env=env, stdout=subprocess.PIPE, stderr=subprocess.STDOUT,
                                   timeout=3600)
                txt = p.stdout.decode(errors="replace")
                ran = re.search(r"test result: (\w+)\. (\d+) passed; (\d+) failed", txt)
                if not ran:
                    rec[prof] = None  # did not build/run
                    rec[prof + "_out"] = txt[-1500:]
                else:
                    rec[prof] = int(ran.group(3)) > 0
                    m = re.search(r"(?s)panicked at (.*?)\n(.*?)\n", txt)
                    rec[prof + "_out"] = (m.group(0).strip() if m else "")[:500]
            out.append(rec)
    finally:
        with open(path, "w") as f:
            f.write(orig)
    return out
