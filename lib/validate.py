import json, sys, glob, jsonschema
m = json.load(open('/verif/MANIFEST.json'))
jsonschema.validate(m, json.load(open('/root/.vp/MANIFEST.schema.json')))
es = json.load(open('/root/.vp/EVIDENCE.schema.json'))
for p in sorted(glob.glob('/verif/evidence/*.json')):
    jsonschema.validate(json.load(open(p)), es)
    print('ok', p)
ids = [json.loads(l)['id'] for l in open('/verif/properties.jsonl')]
claimed = [c['property_id'] for c in m['checks']]
na = [c['property_id'] for c in m.get('not_applicable', [])]
assert sorted(claimed + na) == sorted(ids), (claimed, na)
print('manifest ok; claimed', claimed)
