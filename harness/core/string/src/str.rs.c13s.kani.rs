// C13 — StringToNumber for `0b` / `0o` / `0x` literals: the digit kernel `parse_non_decimal_digits`
// (called by `JsStr::to_number` after the prefix) against exact integer arithmetic.
use super::*;

fn digit_value(c: u8) -> Option<u32> {
    if c >= b'0' && c <= b'9' {
        Some((c - b'0') as u32)
    } else if c >= b'a' && c <= b'f' {
        Some((c - b'a') as u32 + 10)
    } else if c >= b'A' && c <= b'F' {
        Some((c - b'A') as u32 + 10)
    } else {
        None
    }
}

/// exact value, or None if some byte is not a digit of the base
fn exact(s: &[u8], base: u32) -> Option<u128> {
    let mut v: u128 = 0;
    let mut i = 0;
    while i < s.len() {
        let d = digit_value(s[i])?;
        if d >= base {
            return None;
        }
        v = v * base as u128 + d as u128;
        i += 1;
    }
    Some(v)
}

macro_rules! reject {
    ($name:ident, $base:expr) => {
        #[kani::proof]
        #[kani::unwind(5)]
        fn $name() {
            let b: [u8; 3] = kani::any();
            let got = parse_non_decimal_digits(&b, $base);
            match exact(&b, $base) {
                None => assert!(got.is_nan(), "verif: any byte that is not a digit of the base (signs included) makes the literal NaN"),
                Some(v) => assert!(got.to_bits() == (v as u32 as f64).to_bits(), "verif: short digit string is the exact integer"),
            }
            kani::cover!(b[0] == b'+' && exact(&b[1..], $base).is_some(), "sign followed by digits");
            kani::cover!(exact(&b, $base) == Some(($base as u128).pow(3) - 1), "largest 3-digit value");
            kani::cover!(true, "reaches end");
        }
    };
}

// @harness h13s_reject_b2 tier=quick props=C13,C02
// @bounds ∀ byte strings of length exactly 3 (all 2^24), base 2 (literal)
// @domain ∀ s∈u8^3
// @claim parse_non_decimal_digits(s, 2) is NaN iff some byte is not 0/1 (so "0b+1" is NaN), else the exact value
reject!(h13s_reject_b2, 2);
// @harness h13s_reject_b8 tier=quick props=C13,C02
// @bounds ∀ byte strings of length exactly 3 (all 2^24), base 8
// @domain ∀ s∈u8^3
// @claim NaN iff some byte is not an octal digit, else the exact value
reject!(h13s_reject_b8, 8);
// @harness h13s_reject_b16 tier=quick props=C13,C02
// @bounds ∀ byte strings of length exactly 3 (all 2^24), base 16
// @domain ∀ s∈u8^3
// @claim NaN iff some byte is not a hex digit (either case), else the exact value ("0x+5" is NaN)
reject!(h13s_reject_b16, 16);

// @harness h13s_empty tier=quick props=C13
// @bounds none
// @domain the empty digit string, bases 2/8/16
// @claim NaN ("0x" alone is not a literal)
#[kani::proof]
fn h13s_empty() {
    assert!(parse_non_decimal_digits(&[], 2).is_nan(), "verif: empty digits are NaN");
    assert!(parse_non_decimal_digits(&[], 8).is_nan(), "verif: empty digits are NaN");
    assert!(parse_non_decimal_digits(&[], 16).is_nan(), "verif: empty digits are NaN");
    kani::cover!(true, "reaches end");
}

macro_rules! exact_long {
    ($name:ident, $base:expr, $n:expr, $unwind:expr) => {
        #[kani::proof]
        #[kani::unwind($unwind)]
        fn $name() {
            const N: usize = $n;
            let d: [u8; N] = kani::any();
            let mut b = [0u8; N];
            let mut i = 0;
            while i < N {
                kani::assume((d[i] as u32) < $base);
                b[i] = if d[i] < 10 { b'0' + d[i] } else { b'a' + (d[i] - 10) };
                i += 1;
            }
            // @kf-point $name
            let got = parse_non_decimal_digits(&b, $base);
            let mut v: u128 = 0;
            let mut i = 0;
            while i < N {
                v = v * $base as u128 + d[i] as u128;
                i += 1;
            }
            // one rounding of the exact integer (the u128→f64 conversion is the compiler's round-to-nearest-even: trusted)
            assert!(got.to_bits() == (v as f64).to_bits(), "verif: non-decimal literal is the exact integer rounded once");
            kani::cover!(v > (1u128 << 53) && (v & 1) == 1, "odd value above 2^53 (needs rounding)");
            kani::cover!(true, "reaches end");
        }
    };
}

// @harness h13s_hex_n14 tier=quick props=C13,C02
// @bounds exactly 14 hex digits (56 bits: crosses 2^53), lower-case letters
// @domain ∀ d∈{0..15}^14
// @claim result == the exact 56-bit integer rounded once to nearest-even (Number("0x6dcf6bc6b32422"))
exact_long!(h13s_hex_n14, 16, 14, 16);
// @harness h13s_hex_n16 tier=quick props=C13,C02
// @bounds exactly 16 hex digits (64 bits)
// @domain ∀ d∈{0..15}^16
// @claim result == the exact 64-bit integer rounded once
exact_long!(h13s_hex_n16, 16, 16, 18);
// @harness h13s_oct_n22 tier=quick props=C13,C02
// @bounds exactly 22 octal digits (66 bits)
// @domain ∀ d∈{0..7}^22
// @claim result == the exact integer rounded once
exact_long!(h13s_oct_n22, 8, 22, 24);
// @harness h13s_bin_n60 tier=quick props=C13,C02
// @bounds exactly 60 binary digits
// @domain ∀ d∈{0,1}^60
// @claim result == the exact integer rounded once
exact_long!(h13s_bin_n60, 2, 60, 62);
// @harness h13s_hex_n32 tier=quick props=C13,C02
// @bounds exactly 32 hex digits (128 bits: the widest string without dropped digits)
// @domain ∀ d∈{0..15}^32
// @claim result == the exact 128-bit integer rounded once
exact_long!(h13s_hex_n32, 16, 32, 34);
