// C11 — every JsStr operation gives the same result on both representations of the same code units
// and equals the operation on a plain [u16] model.
use super::*;
use crate::CodePoint;

const H: usize = 3; // haystack units
const M: usize = 2; // needle units

fn widen<const K: usize>(l: &[u8; K]) -> [u16; K] {
    let mut w = [0u16; K];
    let mut i = 0;
    while i < K {
        w[i] = u16::from(l[i]);
        i += 1;
    }
    w
}

fn m_eq_at(h: &[u16], i: usize, n: &[u16]) -> bool {
    if i + n.len() > h.len() {
        return false;
    }
    let mut k = 0;
    while k < n.len() {
        if h[i + k] != n[k] {
            return false;
        }
        k += 1;
    }
    true
}

/// StringIndexOf on code units
fn m_index_of(h: &[u16], n: &[u16], from: usize) -> Option<usize> {
    if n.is_empty() {
        return if from <= h.len() { Some(from) } else { None };
    }
    let mut i = from;
    while i < h.len() {
        if m_eq_at(h, i, n) {
            return Some(i);
        }
        i += 1;
    }
    None
}

macro_rules! search_pair {
    ($name:ident, $hn:expr, $nn:expr, $from:expr, $hrep:expr, $nrep:expr) => {
        #[kani::proof]
        #[kani::unwind(8)]
        fn $name() {
            const HN: usize = $hn;
            const NN: usize = $nn;
            let hl: [u8; HN] = kani::any();
            let nl: [u8; NN] = kani::any();
            let from: usize = $from;
            let hw = widen(&hl);
            let nw = widen(&nl);
            let h = if $hrep == 8 { JsStr::latin1(&hl) } else { JsStr::utf16(&hw) };
            let n = if $nrep == 8 { JsStr::latin1(&nl) } else { JsStr::utf16(&nw) };
            let want = m_index_of(&hw, &nw, from);
            assert!(h.index_of(n, from) == want, "verif: index_of is StringIndexOf on code units for every representation pair");
            assert!(h.starts_with(n) == (NN <= HN && m_eq_at(&hw, 0, &nw)), "verif: starts_with depends only on code units");
            assert!(h.ends_with(n) == (NN <= HN && m_eq_at(&hw, HN - if NN <= HN { NN } else { 0 }, &nw)), "verif: ends_with depends only on code units");
            kani::cover!(want.is_some() || NN > HN, "needle found");
            kani::cover!(want.is_none() || (NN == 0 && from <= HN), "needle absent");
            kani::cover!(true, "reaches end");
        }
    };
}

// @harness h11c_search_h8_n8_3_2_f0 tier=quick props=C11,C02
// @bounds haystack exactly 3 units (Latin-1), needle exactly 2 units (Latin-1), units in 0..=255 (so both representations exist), from = 0 (lengths, start index and representation pair are enumerated per harness: symbolic ones make the window/skip/position iterator chain intractable)
// @domain ∀ h∈u8^3, ∀ n∈u8^2
// @claim index_of, starts_with, ends_with equal StringIndexOf / prefix / suffix on the code units (the representation pair must not matter)
search_pair!(h11c_search_h8_n8_3_2_f0, 3, 2, 0, 8, 8);
// @harness h11c_search_h8_n16_3_2_f0 tier=quick props=C11,C02
// @bounds haystack exactly 3 units (Latin-1), needle exactly 2 units (UTF-16), units in 0..=255 (so both representations exist), from = 0 (lengths, start index and representation pair are enumerated per harness: symbolic ones make the window/skip/position iterator chain intractable)
// @domain ∀ h∈u8^3, ∀ n∈u8^2
// @claim index_of, starts_with, ends_with equal StringIndexOf / prefix / suffix on the code units (the representation pair must not matter)
search_pair!(h11c_search_h8_n16_3_2_f0, 3, 2, 0, 8, 16);
// @harness h11c_search_h16_n8_3_2_f0 tier=quick props=C11,C02
// @bounds haystack exactly 3 units (UTF-16), needle exactly 2 units (Latin-1), units in 0..=255 (so both representations exist), from = 0 (lengths, start index and representation pair are enumerated per harness: symbolic ones make the window/skip/position iterator chain intractable)
// @domain ∀ h∈u8^3, ∀ n∈u8^2
// @claim index_of, starts_with, ends_with equal StringIndexOf / prefix / suffix on the code units (the representation pair must not matter)
search_pair!(h11c_search_h16_n8_3_2_f0, 3, 2, 0, 16, 8);
// @harness h11c_search_h16_n16_3_2_f0 tier=quick props=C11,C02
// @bounds haystack exactly 3 units (UTF-16), needle exactly 2 units (UTF-16), units in 0..=255 (so both representations exist), from = 0 (lengths, start index and representation pair are enumerated per harness: symbolic ones make the window/skip/position iterator chain intractable)
// @domain ∀ h∈u8^3, ∀ n∈u8^2
// @claim index_of, starts_with, ends_with equal StringIndexOf / prefix / suffix on the code units (the representation pair must not matter)
search_pair!(h11c_search_h16_n16_3_2_f0, 3, 2, 0, 16, 16);
// @harness h11c_search_h8_n8_3_2_f1 tier=thorough props=C11,C02
// @bounds haystack exactly 3 units (Latin-1), needle exactly 2 units (Latin-1), units in 0..=255 (so both representations exist), from = 1 (lengths, start index and representation pair are enumerated per harness: symbolic ones make the window/skip/position iterator chain intractable)
// @domain ∀ h∈u8^3, ∀ n∈u8^2
// @claim index_of, starts_with, ends_with equal StringIndexOf / prefix / suffix on the code units (the representation pair must not matter)
search_pair!(h11c_search_h8_n8_3_2_f1, 3, 2, 1, 8, 8);
// @harness h11c_search_h8_n16_3_2_f1 tier=quick props=C11,C02
// @bounds haystack exactly 3 units (Latin-1), needle exactly 2 units (UTF-16), units in 0..=255 (so both representations exist), from = 1 (lengths, start index and representation pair are enumerated per harness: symbolic ones make the window/skip/position iterator chain intractable)
// @domain ∀ h∈u8^3, ∀ n∈u8^2
// @claim index_of, starts_with, ends_with equal StringIndexOf / prefix / suffix on the code units (the representation pair must not matter)
search_pair!(h11c_search_h8_n16_3_2_f1, 3, 2, 1, 8, 16);
// @harness h11c_search_h16_n8_3_2_f1 tier=quick props=C11,C02
// @bounds haystack exactly 3 units (UTF-16), needle exactly 2 units (Latin-1), units in 0..=255 (so both representations exist), from = 1 (lengths, start index and representation pair are enumerated per harness: symbolic ones make the window/skip/position iterator chain intractable)
// @domain ∀ h∈u8^3, ∀ n∈u8^2
// @claim index_of, starts_with, ends_with equal StringIndexOf / prefix / suffix on the code units (the representation pair must not matter)
search_pair!(h11c_search_h16_n8_3_2_f1, 3, 2, 1, 16, 8);
// @harness h11c_search_h16_n16_3_2_f1 tier=thorough props=C11,C02
// @bounds haystack exactly 3 units (UTF-16), needle exactly 2 units (UTF-16), units in 0..=255 (so both representations exist), from = 1 (lengths, start index and representation pair are enumerated per harness: symbolic ones make the window/skip/position iterator chain intractable)
// @domain ∀ h∈u8^3, ∀ n∈u8^2
// @claim index_of, starts_with, ends_with equal StringIndexOf / prefix / suffix on the code units (the representation pair must not matter)
search_pair!(h11c_search_h16_n16_3_2_f1, 3, 2, 1, 16, 16);
// @harness h11c_search_h8_n8_3_1_f2 tier=thorough props=C11,C02
// @bounds haystack exactly 3 units (Latin-1), needle exactly 1 units (Latin-1), units in 0..=255 (so both representations exist), from = 2 (lengths, start index and representation pair are enumerated per harness: symbolic ones make the window/skip/position iterator chain intractable)
// @domain ∀ h∈u8^3, ∀ n∈u8^1
// @claim index_of, starts_with, ends_with equal StringIndexOf / prefix / suffix on the code units (the representation pair must not matter)
search_pair!(h11c_search_h8_n8_3_1_f2, 3, 1, 2, 8, 8);
// @harness h11c_search_h8_n16_3_1_f2 tier=thorough props=C11,C02
// @bounds haystack exactly 3 units (Latin-1), needle exactly 1 units (UTF-16), units in 0..=255 (so both representations exist), from = 2 (lengths, start index and representation pair are enumerated per harness: symbolic ones make the window/skip/position iterator chain intractable)
// @domain ∀ h∈u8^3, ∀ n∈u8^1
// @claim index_of, starts_with, ends_with equal StringIndexOf / prefix / suffix on the code units (the representation pair must not matter)
search_pair!(h11c_search_h8_n16_3_1_f2, 3, 1, 2, 8, 16);
// @harness h11c_search_h16_n8_3_1_f2 tier=thorough props=C11,C02
// @bounds haystack exactly 3 units (UTF-16), needle exactly 1 units (Latin-1), units in 0..=255 (so both representations exist), from = 2 (lengths, start index and representation pair are enumerated per harness: symbolic ones make the window/skip/position iterator chain intractable)
// @domain ∀ h∈u8^3, ∀ n∈u8^1
// @claim index_of, starts_with, ends_with equal StringIndexOf / prefix / suffix on the code units (the representation pair must not matter)
search_pair!(h11c_search_h16_n8_3_1_f2, 3, 1, 2, 16, 8);
// @harness h11c_search_h16_n16_3_1_f2 tier=thorough props=C11,C02
// @bounds haystack exactly 3 units (UTF-16), needle exactly 1 units (UTF-16), units in 0..=255 (so both representations exist), from = 2 (lengths, start index and representation pair are enumerated per harness: symbolic ones make the window/skip/position iterator chain intractable)
// @domain ∀ h∈u8^3, ∀ n∈u8^1
// @claim index_of, starts_with, ends_with equal StringIndexOf / prefix / suffix on the code units (the representation pair must not matter)
search_pair!(h11c_search_h16_n16_3_1_f2, 3, 1, 2, 16, 16);
// @harness h11c_search_h8_n8_2_0_f2 tier=quick props=C11,C02
// @bounds haystack exactly 2 units (Latin-1), needle exactly 0 units (Latin-1), units in 0..=255 (so both representations exist), from = 2 (lengths, start index and representation pair are enumerated per harness: symbolic ones make the window/skip/position iterator chain intractable)
// @domain ∀ h∈u8^2, ∀ n∈u8^0
// @claim index_of, starts_with, ends_with equal StringIndexOf / prefix / suffix on the code units (the representation pair must not matter)
search_pair!(h11c_search_h8_n8_2_0_f2, 2, 0, 2, 8, 8);
// @harness h11c_search_h8_n16_2_0_f2 tier=quick props=C11,C02
// @bounds haystack exactly 2 units (Latin-1), needle exactly 0 units (UTF-16), units in 0..=255 (so both representations exist), from = 2 (lengths, start index and representation pair are enumerated per harness: symbolic ones make the window/skip/position iterator chain intractable)
// @domain ∀ h∈u8^2, ∀ n∈u8^0
// @claim index_of, starts_with, ends_with equal StringIndexOf / prefix / suffix on the code units (the representation pair must not matter)
search_pair!(h11c_search_h8_n16_2_0_f2, 2, 0, 2, 8, 16);
// @harness h11c_search_h16_n8_2_0_f2 tier=quick props=C11,C02
// @bounds haystack exactly 2 units (UTF-16), needle exactly 0 units (Latin-1), units in 0..=255 (so both representations exist), from = 2 (lengths, start index and representation pair are enumerated per harness: symbolic ones make the window/skip/position iterator chain intractable)
// @domain ∀ h∈u8^2, ∀ n∈u8^0
// @claim index_of, starts_with, ends_with equal StringIndexOf / prefix / suffix on the code units (the representation pair must not matter)
search_pair!(h11c_search_h16_n8_2_0_f2, 2, 0, 2, 16, 8);
// @harness h11c_search_h16_n16_2_0_f2 tier=quick props=C11,C02
// @bounds haystack exactly 2 units (UTF-16), needle exactly 0 units (UTF-16), units in 0..=255 (so both representations exist), from = 2 (lengths, start index and representation pair are enumerated per harness: symbolic ones make the window/skip/position iterator chain intractable)
// @domain ∀ h∈u8^2, ∀ n∈u8^0
// @claim index_of, starts_with, ends_with equal StringIndexOf / prefix / suffix on the code units (the representation pair must not matter)
search_pair!(h11c_search_h16_n16_2_0_f2, 2, 0, 2, 16, 16);
// @harness h11c_search_h8_n8_1_2_f0 tier=quick props=C11,C02
// @bounds haystack exactly 1 units (Latin-1), needle exactly 2 units (Latin-1), units in 0..=255 (so both representations exist), from = 0 (lengths, start index and representation pair are enumerated per harness: symbolic ones make the window/skip/position iterator chain intractable)
// @domain ∀ h∈u8^1, ∀ n∈u8^2
// @claim index_of, starts_with, ends_with equal StringIndexOf / prefix / suffix on the code units (the representation pair must not matter)
search_pair!(h11c_search_h8_n8_1_2_f0, 1, 2, 0, 8, 8);
// @harness h11c_search_h8_n16_1_2_f0 tier=quick props=C11,C02
// @bounds haystack exactly 1 units (Latin-1), needle exactly 2 units (UTF-16), units in 0..=255 (so both representations exist), from = 0 (lengths, start index and representation pair are enumerated per harness: symbolic ones make the window/skip/position iterator chain intractable)
// @domain ∀ h∈u8^1, ∀ n∈u8^2
// @claim index_of, starts_with, ends_with equal StringIndexOf / prefix / suffix on the code units (the representation pair must not matter)
search_pair!(h11c_search_h8_n16_1_2_f0, 1, 2, 0, 8, 16);
// @harness h11c_search_h16_n8_1_2_f0 tier=quick props=C11,C02
// @bounds haystack exactly 1 units (UTF-16), needle exactly 2 units (Latin-1), units in 0..=255 (so both representations exist), from = 0 (lengths, start index and representation pair are enumerated per harness: symbolic ones make the window/skip/position iterator chain intractable)
// @domain ∀ h∈u8^1, ∀ n∈u8^2
// @claim index_of, starts_with, ends_with equal StringIndexOf / prefix / suffix on the code units (the representation pair must not matter)
search_pair!(h11c_search_h16_n8_1_2_f0, 1, 2, 0, 16, 8);
// @harness h11c_search_h16_n16_1_2_f0 tier=quick props=C11,C02
// @bounds haystack exactly 1 units (UTF-16), needle exactly 2 units (UTF-16), units in 0..=255 (so both representations exist), from = 0 (lengths, start index and representation pair are enumerated per harness: symbolic ones make the window/skip/position iterator chain intractable)
// @domain ∀ h∈u8^1, ∀ n∈u8^2
// @claim index_of, starts_with, ends_with equal StringIndexOf / prefix / suffix on the code units (the representation pair must not matter)
search_pair!(h11c_search_h16_n16_1_2_f0, 1, 2, 0, 16, 16);

// @harness h11c_search_utf16 tier=thorough props=C11,C02
// @bounds haystack exactly 3 units, needle exactly 2 units over the full 16-bit alphabet (UTF-16 representation), from = 0
// @domain ∀ h∈u16^3, ∀ n∈u16^2
// @claim index_of/starts_with/ends_with ≡ code-unit model for utf16 haystack and utf16 needle with arbitrary units (surrogates, > 255)
#[kani::proof]
#[kani::unwind(8)]
fn h11c_search_utf16() {
    let hu: [u16; H] = kani::any();
    let nu: [u16; M] = kani::any();
    let h = JsStr::utf16(&hu);
    let n = JsStr::utf16(&nu);
    assert!(h.index_of(n, 0) == m_index_of(&hu, &nu, 0), "verif: utf16/utf16 index_of from 0");
    assert!(h.starts_with(n) == m_eq_at(&hu, 0, &nu), "verif: utf16/utf16 starts_with");
    assert!(h.ends_with(n) == m_eq_at(&hu, H - M, &nu), "verif: utf16/utf16 ends_with");
    kani::cover!(nu[0] >= 0xD800 && nu[0] < 0xDC00 && h.index_of(n, 0).is_some(), "surrogate-led needle found");
    kani::cover!(true, "reaches end");
}

// @harness h11c_search_l1_hay_wide_needle tier=quick props=C11,C02
// @bounds Latin-1 haystack exactly 3 units, UTF-16 needle exactly 1 unit over the full 16-bit alphabet, from = 0
// @domain ∀ h∈u8^3, ∀ n∈u16^1
// @claim a Latin-1 haystack contains a UTF-16-backed needle exactly when the code units match (never for a unit above 255, always for a matching unit ≤ 255)
#[kani::proof]
#[kani::unwind(8)]
fn h11c_search_l1_hay_wide_needle() {
    let h8: [u8; H] = kani::any();
    let nu: [u16; 1] = kani::any();
    let h8w = widen(&h8);
    assert!(JsStr::latin1(&h8).index_of(JsStr::utf16(&nu), 0) == m_index_of(&h8w, &nu, 0), "verif: latin1/utf16 index_of");
    kani::cover!(nu[0] > 255, "needle unit above 255");
    kani::cover!(JsStr::latin1(&h8).index_of(JsStr::utf16(&nu), 0) == Some(2), "UTF-16-backed needle found at the end of a Latin-1 haystack");
    kani::cover!(true, "reaches end");
}

fn m_code_point_at(u: &[u16], p: usize) -> (u32, bool) {
    // returns (code point or unit value, is_unpaired_surrogate)
    let first = u[p];
    if !(0xD800..=0xDFFF).contains(&first) {
        return (first as u32, false);
    }
    if first >= 0xDC00 || p + 1 == u.len() {
        return (first as u32, true);
    }
    let second = u[p + 1];
    if !(0xDC00..=0xDFFF).contains(&second) {
        return (first as u32, true);
    }
    (0x10000 + (((first as u32) - 0xD800) << 10) + ((second as u32) - 0xDC00), false)
}

// @harness h11c_access tier=quick props=C11,C02
// @bounds strings ≤ 3 units; Latin-1-range contents in both representations plus full 16-bit contents in UTF-16; ∀ indices/ranges ≤ 5
// @domain ∀ l∈u8^3, u∈u16^3, n≤3, ∀ i, a, b ≤ 5, ∀ byte e
// @claim get(i), get(a..b), get(a..), get(..b), get(a..=b) return None exactly when out of range and otherwise the same units for both representations; code_point_at ≡ spec CodePointAt (pairs, lone surrogates); contains(byte), to_vec, iter, len agree with the unit model
#[kani::proof]
#[kani::unwind(8)]
fn h11c_access() {
    let l: [u8; H] = kani::any();
    let u: [u16; H] = kani::any();
    let n: usize = kani::any();
    kani::assume(n <= H);
    let w = widen(&l);
    let s8 = JsStr::latin1(&l[..n]);
    let s16 = JsStr::utf16(&w[..n]);
    let su = JsStr::utf16(&u[..n]);
    let i: usize = kani::any();
    let a: usize = kani::any();
    let b: usize = kani::any();
    kani::assume(i <= 5 && a <= 5 && b <= 5);
    // get(usize)
    let want = if i < n { Some(w[i]) } else { None };
    assert!(s8.get(i) == want && s16.get(i) == want, "verif: get(i) is the i-th unit or None");
    assert!(su.get(i) == if i < n { Some(u[i]) } else { None }, "verif: get(i) on utf16");
    // ranges
    let in_range = a <= b && b <= n;
    match (s8.get(a..b), s16.get(a..b)) {
        (Some(x), Some(y)) => {
            assert!(in_range, "verif: get(a..b) is Some only in range");
            assert!(x.len() == b - a && y.len() == b - a && x == y, "verif: get(a..b) same units for both representations");
            assert!(b == a || x.get(0usize) == Some(w[a]), "verif: get(a..b) starts at unit a");
        }
        (None, None) => assert!(!in_range, "verif: get(a..b) is None only out of range"),
        _ => panic!("verif: get(a..b) Some/None differs between representations"),
    }
    assert!(s8.get(a..).is_some() == (a <= n) && su.get(a..).is_some() == (a <= n), "verif: get(a..) range check");
    assert!(s8.get(..b).is_some() == (b <= n) && su.get(..b).is_some() == (b <= n), "verif: get(..b) range check");
    assert!(s8.get(a..=b).is_some() == (a <= b + 1 && b < n) && s16.get(a..=b).is_some() == (a <= b + 1 && b < n), "verif: get(a..=b) range check");
    // code_point_at
    if i < n {
        let (cp, lone) = m_code_point_at(&u[..n], i);
        match su.code_point_at(i) {
            CodePoint::Unicode(c) => assert!(!lone && c as u32 == cp, "verif: code_point_at decodes pairs and BMP units"),
            CodePoint::UnpairedSurrogate(x) => assert!(lone && x as u32 == cp, "verif: code_point_at reports lone surrogates"),
        }
        match (s8.code_point_at(i), s16.code_point_at(i)) {
            (CodePoint::Unicode(c1), CodePoint::Unicode(c2)) => assert!(c1 == c2 && c1 as u32 == w[i] as u32, "verif: code_point_at on Latin-1 range agrees across representations"),
            _ => panic!("verif: Latin-1 range units are never surrogates"),
        }
    }
    // contains / to_vec / iter / len
    let e: u8 = kani::any();
    let mut has = false;
    let mut k = 0;
    while k < n {
        if w[k] == u16::from(e) {
            has = true;
        }
        k += 1;
    }
    assert!(s8.contains(e) == has && s16.contains(e) == has, "verif: contains(byte) depends only on code units");
    let v8 = s8.to_vec();
    let v16 = s16.to_vec();
    assert!(v8.len() == n && v16.len() == n, "verif: to_vec length");
    let mut it8 = s8.iter();
    let mut it16 = s16.iter();
    k = 0;
    while k < n {
        assert!(v8[k] == w[k] && v16[k] == w[k], "verif: to_vec units");
        assert!(it8.next() == Some(w[k]) && it16.next() == Some(w[k]), "verif: iter yields the units in order");
        k += 1;
    }
    assert!(it8.next().is_none() && it16.next().is_none(), "verif: iter ends after len units");
    kani::cover!(i + 1 < n && u[i] >= 0xD800 && u[i] < 0xDC00 && u[i + 1] >= 0xDC00 && u[i + 1] < 0xE000, "astral pair decoded");
    kani::cover!(i < n && u[i] >= 0xDC00 && u[i] < 0xE000, "lone low surrogate");
    kani::cover!(in_range && b > a, "non-empty in-range slice");
    kani::cover!(true, "reaches end");
}
