// C11 — JsString layer: heap strings built from either representation, slices (with clamping) and
// concatenations behave like the plain [u16] model, whatever representation they end up in.
use super::*;

fn no_static(_s: &JsStr<'_>) -> Option<JsString> {
    None
}
fn unit(s: &JsString, i: usize) -> Option<u16> {
    s.as_str().get(i)
}

macro_rules! slice_clamp {
    ($name:ident, $rep:expr) => {
        #[kani::proof]
        #[kani::unwind(8)]
        #[kani::stub(crate::StaticJsStrings::get_string, no_static)]
        fn $name() {
            let l: [u8; 3] = kani::any();
            let w: [u16; 3] = [l[0] as u16, l[1] as u16, l[2] as u16];
            let a = if $rep == 8 { JsString::from_js_str(JsStr::latin1(&l)) } else { JsString::from_js_str(JsStr::utf16(&w)) };
            let p1: usize = kani::any();
            let p2: usize = kani::any();
            let sa = a.slice(p1, p2);
            let end = if p2 > 3 { 3 } else { p2 };
            let want_len = if p1 >= end { 0 } else { end - p1 };
            assert!(sa.len() == want_len, "verif: slice length is the clamped range length");
            let mut i = 0;
            while i < 3 {
                let want = if i < want_len { Some(w[p1 + i]) } else { None };
                assert!(unit(&sa, i) == want, "verif: slice units are the units of the clamped range");
                i += 1;
            }
            kani::cover!(want_len == 2 && p1 == 1, "proper interior slice");
            kani::cover!(p2 > 3 && p1 < 3, "end clamped");
            kani::cover!(p1 > p2, "reversed range");
            kani::cover!(true, "reaches end");
            std::mem::forget(a);
            std::mem::forget(sa);
        }
    };
}
// @harness h11d_slice_clamp_l1 tier=quick props=C11,C02
// @bounds a heap string of exactly 3 units in Latin-1 storage; ∀ p1, p2 ∈ usize (the whole range: clamping must make slice_unchecked safe)
// @domain ∀ l∈u8^3, ∀ p1,p2∈usize: JsString(latin1 l).slice(p1,p2)
// @claim slice(p1,p2) has exactly the units [p1, min(p2,len)) (empty when p1 ≥ that); no out-of-bounds access for any p1,p2 (CBMC pointer checks)
// @stubs StaticJsStrings::get_string→None
slice_clamp!(h11d_slice_clamp_l1, 8);
// @harness h11d_slice_clamp_u16 tier=quick props=C11,C02
// @bounds as h11d_slice_clamp_l1 with UTF-16 storage of the same units
// @domain ∀ l∈u8^3 widened, ∀ p1,p2∈usize
// @claim as h11d_slice_clamp_l1 (same model ⇒ same result for both storage forms)
// @stubs StaticJsStrings::get_string→None
slice_clamp!(h11d_slice_clamp_u16, 16);

// @harness h11d_concat_mixed tier=quick props=C11,C02
// @bounds two strings of exactly 2 units each; left in Latin-1 storage (∀ bytes), right in UTF-16 storage (∀ units)
// @domain ∀ x∈u8^2, ∀ y∈u16^2: JsString::concat(latin1 x, utf16 y) and concat(utf16 y, latin1 x)
// @claim the concatenation has length 4 and exactly the units x·y (resp. y·x): Latin-1 bytes ≥ 0x80 are widened, not re-encoded; concatenating two Latin-1 parts equals the UTF-16 concatenation of the same units
// @stubs StaticJsStrings::get_string→None
#[kani::proof]
#[kani::unwind(8)]
#[kani::stub(crate::StaticJsStrings::get_string, no_static)]
fn h11d_concat_mixed() {
    let x: [u8; 2] = kani::any();
    let y: [u16; 2] = kani::any();
    let xw: [u16; 2] = [x[0] as u16, x[1] as u16];
    let c1 = JsString::concat(JsStr::latin1(&x), JsStr::utf16(&y));
    let c2 = JsString::concat(JsStr::utf16(&y), JsStr::latin1(&x));
    assert!(c1.len() == 4 && c2.len() == 4, "verif: concat length");
    assert!(unit(&c1, 0) == Some(xw[0]) && unit(&c1, 1) == Some(xw[1]) && unit(&c1, 2) == Some(y[0]) && unit(&c1, 3) == Some(y[1]), "verif: latin1 + utf16 units");
    assert!(unit(&c2, 0) == Some(y[0]) && unit(&c2, 1) == Some(y[1]) && unit(&c2, 2) == Some(xw[0]) && unit(&c2, 3) == Some(xw[1]), "verif: utf16 + latin1 units");
    let c3 = JsString::concat(JsStr::latin1(&x), JsStr::latin1(&x));
    let c4 = JsString::concat(JsStr::utf16(&xw), JsStr::latin1(&x));
    assert!(c3 == c4 && c3.len() == 4, "verif: Latin-1 and UTF-16 stored concatenations of the same units are equal");
    kani::cover!(x[0] >= 0x80, "Latin-1-high byte widened");
    kani::cover!(y[0] >= 0xD800 && y[0] < 0xDC00, "surrogate in the UTF-16 part");
    kani::cover!(true, "reaches end");
    std::mem::forget(c1);
    std::mem::forget(c2);
    std::mem::forget(c3);
    std::mem::forget(c4);
}
