// C11 — representation independence of JsStr Eq / Ord / Hash and of `== str`.
// Child module of core/string/src/str.rs (sees private items through `super::*`).
use super::*;
use std::cmp::Ordering;

/// A `Hasher` that records the exact stream of typed write calls.
pub(super) struct Rec {
    pub ev: [(u8, u64); 8],
    pub n: usize,
}
impl Rec {
    pub fn new() -> Self {
        Rec { ev: [(0, 0); 8], n: 0 }
    }
    fn push(&mut self, k: u8, v: u64) {
        if self.n < 8 {
            self.ev[self.n] = (k, v);
        }
        self.n += 1;
    }
    pub fn same(&self, o: &Rec) -> bool {
        if self.n != o.n || self.n > 8 {
            return false;
        }
        let mut i = 0;
        while i < self.n {
            if self.ev[i].0 != o.ev[i].0 || self.ev[i].1 != o.ev[i].1 {
                return false;
            }
            i += 1;
        }
        true
    }
}
impl Hasher for Rec {
    fn finish(&self) -> u64 {
        0
    }
    fn write(&mut self, bytes: &[u8]) {
        // untyped writes: record length and first byte (none are expected from JsStr::hash)
        self.push(9, bytes.len() as u64);
    }
    fn write_u8(&mut self, i: u8) {
        self.push(1, u64::from(i));
    }
    fn write_u16(&mut self, i: u16) {
        self.push(2, u64::from(i));
    }
    fn write_u32(&mut self, i: u32) {
        self.push(4, u64::from(i));
    }
    fn write_u64(&mut self, i: u64) {
        self.push(8, i);
    }
    fn write_usize(&mut self, i: usize) {
        self.push(7, i as u64);
    }
}

/// model: lexicographic compare on code units
fn model_cmp(a: &[u16], b: &[u16]) -> Ordering {
    let mut i = 0;
    while i < a.len() && i < b.len() {
        if a[i] < b[i] {
            return Ordering::Less;
        }
        if a[i] > b[i] {
            return Ordering::Greater;
        }
        i += 1;
    }
    if a.len() < b.len() {
        Ordering::Less
    } else if a.len() > b.len() {
        Ordering::Greater
    } else {
        Ordering::Equal
    }
}
fn model_eq(a: &[u16], b: &[u16]) -> bool {
    if a.len() != b.len() {
        return false;
    }
    let mut i = 0;
    while i < a.len() {
        if a[i] != b[i] {
            return false;
        }
        i += 1;
    }
    true
}

macro_rules! eq_ord_hash {
    ($name:ident, $n:expr, $unwind:expr) => {
        #[kani::proof]
        #[kani::unwind($unwind)]
        fn $name() {
            const N: usize = $n;
            let l1: [u8; N] = kani::any();
            let u2: [u16; N] = kani::any();
            let n1: usize = kani::any();
            let n2: usize = kani::any();
            kani::assume(n1 <= N && n2 <= N);
            let mut w1 = [0u16; N];
            let mut i = 0;
            while i < N {
                w1[i] = u16::from(l1[i]);
                i += 1;
            }
            let a = JsStr::latin1(&l1[..n1]);
            let a16 = JsStr::utf16(&w1[..n1]);
            let b = JsStr::utf16(&u2[..n2]);
            let me = model_eq(&w1[..n1], &u2[..n2]);
            let mc = model_cmp(&w1[..n1], &u2[..n2]);
            // Eq in all pairings and both argument orders
            assert!((a == b) == me, "verif: latin1 == utf16 iff units equal");
            assert!((b == a) == me, "verif: utf16 == latin1 iff units equal");
            assert!((a16 == b) == me, "verif: utf16 == utf16 iff units equal");
            assert!(a == a16 && a16 == a, "verif: latin1 equals its widened utf16 twin");
            // [u16] == JsStr
            assert!((u2[..n2] == a) == me, "verif: [u16] == latin1 JsStr iff units equal");
            assert!((w1[..n1] == b) == me, "verif: [u16] == utf16 JsStr iff units equal");
            // Ord
            assert!(a.cmp(&b) == mc, "verif: cmp(latin1, utf16) is unit-lexicographic");
            assert!(b.cmp(&a) == mc.reverse(), "verif: cmp(utf16, latin1) is unit-lexicographic");
            assert!(a16.cmp(&b) == mc, "verif: cmp(utf16, utf16) is unit-lexicographic");
            assert!(a.cmp(&a16) == Ordering::Equal, "verif: cmp(latin1, twin) is Equal");
            assert!(a.partial_cmp(&b) == Some(mc), "verif: partial_cmp agrees with cmp");
            // Hash: identical typed call stream for the two representations of the same units
            let mut h1 = Rec::new();
            let mut h2 = Rec::new();
            a.hash(&mut h1);
            a16.hash(&mut h2);
            assert!(h1.same(&h2), "verif: hash call stream independent of representation");
            assert!(h1.n == n1 + 1, "verif: hash stream is len + one write per unit");
            // len / is_empty / is_latin1 bookkeeping
            assert!(a.len() == n1 && a16.len() == n1 && b.len() == n2, "verif: len is the unit count");
            assert!(a.is_empty() == (n1 == 0), "verif: is_empty iff zero units");
            kani::cover!(me && n1 == N, "equal full-length mixed-representation pair");
            kani::cover!(!me && n1 == n2 && n1 > 0, "same length, different units");
            kani::cover!(n1 != n2, "length mismatch");
            kani::cover!(mc == Ordering::Greater && n1 < n2, "greater although shorter");
            kani::cover!(true, "reaches end");
        }
    };
}

// @harness h11a_eq_ord_hash_n3 tier=quick props=C11,C02
// @bounds N=3 code units per string (full u8 / u16 alphabets); unwind 10
// @domain ∀ l1∈u8^3, u2∈u16^3, n1,n2≤3: a=latin1(l1[..n1]), a16=utf16(widen(l1)[..n1]), b=utf16(u2[..n2])
// @claim ==, [u16]==JsStr, cmp, partial_cmp in all pairings ≡ unit model; Hash call stream(a) = Hash call stream(a16); len/is_empty
eq_ord_hash!(h11a_eq_ord_hash_n3, 3, 10);

// @harness h11a_eq_ord_hash_n5 tier=thorough props=C11,C02
// @bounds N=5 code units per string; unwind 14
// @domain ∀ l1∈u8^5, u2∈u16^5, n1,n2≤5
// @claim as h11a_eq_ord_hash_n3
eq_ord_hash!(h11a_eq_ord_hash_n5, 5, 14);

/// model of `str.encode_utf16()` for ≤ 2 scalar values, written without std iterators
fn enc16(c: char, out: &mut [u16; 4], n: &mut usize) {
    let v = c as u32;
    if v < 0x10000 {
        out[*n] = v as u16;
        *n += 1;
    } else {
        let w = v - 0x10000;
        out[*n] = 0xD800 + (w >> 10) as u16;
        out[*n + 1] = 0xDC00 + (w & 0x3FF) as u16;
        *n += 2;
    }
}

macro_rules! eq_str {
    ($name:ident, $n:expr, $unwind:expr) => {
        #[kani::proof]
        #[kani::unwind($unwind)]
        fn $name() {
            const N: usize = $n;
            // arbitrary &str of 0..=2 scalar values
            let c1: char = kani::any();
            let c2: char = kani::any();
            let k: usize = kani::any();
            kani::assume(k <= 2);
            let mut sbuf = [0u8; 8];
            let mut slen = 0usize;
            let mut m = [0u16; 4];
            let mut mlen = 0usize;
            if k >= 1 {
                slen += c1.encode_utf8(&mut sbuf[slen..]).len();
                enc16(c1, &mut m, &mut mlen);
            }
            if k >= 2 {
                slen += c2.encode_utf8(&mut sbuf[slen..]).len();
                enc16(c2, &mut m, &mut mlen);
            }
            // SAFETY: concatenation of encode_utf8 outputs
            let s: &str = unsafe { std::str::from_utf8_unchecked(&sbuf[..slen]) };
            // arbitrary JsStr in both representations
            let l1: [u8; N] = kani::any();
            let u2: [u16; N] = kani::any();
            let n1: usize = kani::any();
            let n2: usize = kani::any();
            kani::assume(n1 <= N && n2 <= N);
            let mut w1 = [0u16; N];
            let mut i = 0;
            while i < N {
                w1[i] = u16::from(l1[i]);
                i += 1;
            }
            let a = JsStr::latin1(&l1[..n1]);
            let b = JsStr::utf16(&u2[..n2]);
            let ma = model_eq(&w1[..n1], &m[..mlen]);
            let mb = model_eq(&u2[..n2], &m[..mlen]);
            assert!((a == *s) == ma, "verif: latin1 JsStr == str iff units == str.encode_utf16()");
            assert!((b == *s) == mb, "verif: utf16 JsStr == str iff units == str.encode_utf16()");
            assert!((a == s) == ma, "verif: latin1 JsStr == &str iff units == str.encode_utf16()");
            assert!((b == s) == mb, "verif: utf16 JsStr == &str iff units == str.encode_utf16()");
            kani::cover!(ma && n1 == 2 && l1[0] >= 0x80, "latin1-high string equal to a str");
            kani::cover!(mb && n2 == 3, "utf16 string with astral pair equal to a str");
            kani::cover!(!mb && n2 < mlen, "utf16 string is a strict prefix-length of the str");
            kani::cover!(true, "reaches end");
        }
    };
}

// @harness h11b_eq_str_n3 tier=quick props=C11,C02
// @bounds str of ≤2 arbitrary Unicode scalar values (≤8 UTF-8 bytes, ≤4 units); JsStr ≤3 units; unwind 10
// @domain ∀ c1,c2∈char, k≤2, l1∈u8^3, u2∈u16^3, n1,n2≤3
// @claim (JsStr == str) ⇔ units == str.encode_utf16() for both representations, via PartialEq<str> and PartialEq<&str>
eq_str!(h11b_eq_str_n3, 3, 10);
