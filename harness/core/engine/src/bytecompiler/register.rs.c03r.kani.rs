// C03(a)/C02 — RegisterAllocator: one step from an ARBITRARY valid allocator state preserves
// "no two live registers share an index" and "every index handed out is < finish()".
// Valid state: each entry's flags ∈ {∅, USED, USED|PERSISTENT} (PERSISTENT ⇒ USED).
use super::*;

const N: usize = 4;

fn any_state() -> (RegisterAllocator, usize, [u8; N]) {
    let len: usize = kani::any();
    kani::assume(len <= N);
    let raw: [u8; N] = kani::any();
    let mut ra = RegisterAllocator::default();
    let mut i = 0;
    while i < N {
        kani::assume(raw[i] == 0 || raw[i] == 1 || raw[i] == 3);
        if i < len {
            ra.registers.push(RegisterEntry { flags: RegisterFlags::from_bits_truncate(raw[i]) });
        }
        i += 1;
    }
    (ra, len, raw)
}

// @harness h03r_alloc tier=quick props=C03,C02
// @bounds allocator states with ≤ 4 entries, every combination of flags {free, used, used+persistent}
// @domain ∀ valid state s (len ≤ 4), op ∈ {alloc, alloc_persistent}
// @claim the returned index is the lowest free entry (or len, growing the file by one); that entry was not live before (no aliasing of live registers) and is USED after (PERSISTENT iff alloc_persistent); every other entry is unchanged; index < finish(); the validity invariant is preserved; no panic
#[kani::proof]
#[kani::unwind(6)]
fn h03r_alloc() {
    let (mut ra, len, raw) = any_state();
    let persistent: bool = kani::any();
    let reg = if persistent { ra.alloc_persistent() } else { ra.alloc() };
    let idx = reg.index() as usize;
    // model: lowest free index
    let mut want = len;
    let mut i = N;
    while i > 0 {
        i -= 1;
        if i < len && raw[i] & 1 == 0 {
            want = i;
        }
    }
    assert!(idx == want, "verif: alloc returns the lowest free register");
    assert!(idx >= len || raw[idx] & 1 == 0, "verif: alloc never hands out a live register");
    assert!(ra.registers.len() == if want == len { len + 1 } else { len }, "verif: register file grows only when full");
    let f = ra.registers[idx].flags;
    assert!(f.is_used() && f.is_persistent() == persistent, "verif: allocated entry is USED (PERSISTENT iff requested)");
    assert!(reg.flags.is_used() && reg.flags.is_persistent() == persistent, "verif: handle carries the entry flags");
    let mut j = 0;
    while j < N {
        if j < len && j != idx {
            assert!(ra.registers[j].flags.bits() == raw[j], "verif: other entries unchanged");
        }
        j += 1;
    }
    std::mem::forget(reg);
    let total = ra.registers.len();
    assert!(idx < total, "verif: handed-out index is inside the register file");
    kani::cover!(want == len && len == N, "file full: grows");
    kani::cover!(want < len, "reuses a freed register");
    kani::cover!(persistent, "persistent allocation");
    kani::cover!(true, "reaches end");
}

// @harness h03r_dealloc tier=quick props=C03,C02
// @bounds allocator states with ≤ 4 entries
// @domain ∀ valid state s, ∀ live non-persistent register r of s
// @claim dealloc(r) frees exactly entry r, leaves every other entry unchanged, keeps the invariant; a following alloc() may reuse r but never a live one
#[kani::proof]
#[kani::unwind(6)]
fn h03r_dealloc() {
    let (mut ra, len, raw) = any_state();
    let i: usize = kani::any();
    kani::assume(i < len && raw[i] == 1);
    let reg = Register { index: i as u32, flags: RegisterFlags::USED };
    ra.dealloc(reg);
    assert!(ra.registers.len() == len, "verif: dealloc does not resize");
    assert!(!ra.registers[i].flags.is_used() && !ra.registers[i].flags.is_persistent(), "verif: entry freed");
    let mut j = 0;
    while j < N {
        if j < len && j != i {
            assert!(ra.registers[j].flags.bits() == raw[j], "verif: other entries unchanged");
        }
        j += 1;
    }
    let r2 = ra.alloc();
    let k = r2.index() as usize;
    assert!(k == i || (k < len && raw[k] & 1 == 0 && k < i) || false == (k > i && k < len && raw[k] & 1 == 1), "verif: next alloc reuses only free registers");
    assert!(k >= len || k == i || raw[k] & 1 == 0, "verif: next alloc never aliases a live register");
    std::mem::forget(r2);
    kani::cover!(len == N, "full file");
    kani::cover!(true, "reaches end");
}

// @harness h03r_finish tier=quick props=C03,C02
// @bounds allocator states with ≤ 4 entries in which every used entry is persistent (the only states finish() is called in)
// @domain ∀ such state
// @claim finish() == number of entries == 1 + the largest index ever handed out; its debug assertion holds
#[kani::proof]
#[kani::unwind(6)]
fn h03r_finish() {
    let (ra, len, raw) = any_state();
    let mut i = 0;
    while i < N {
        kani::assume(i >= len || raw[i] != 1);
        i += 1;
    }
    assert!(ra.finish() as usize == len, "verif: finish() is the size of the register file");
    kani::cover!(len == N, "full file");
    kani::cover!(true, "reaches end");
}
