// C15 — typed-array → typed-array element conversion (`new Int8Array(otherTypedArray)`:
// InitializeTypedArrayFromTypedArray step "SetValueInBuffer(.., elementType, value)") goes through
// `TypedArrayElement::cast` = `TypedArrayKind::to_element_f64(self.as_f64())`.  The specification converts with
// ToInt8/ToUint8/…/ToUint8Clamp (NumericToRawBytes): modular, not saturating; ties to even when clamping.
use super::*;
use crate::verif_kani_lib_model as vm;

fn noop() {}

macro_rules! to_elem {
    ($name:ident, $kind:ident, $t:ty, $k:expr) => {
        #[kani::proof]
        #[kani::stub(std::rt::thread_cleanup, noop)]
        fn $name() {
            let bits: u64 = kani::any();
            // @kf-point $name
            let e = TypedArrayKind::$kind.to_element_f64(f64::from_bits(bits));
            let want = vm::trunc_mod_pow2(bits, $k) as $t;
            match e {
                TypedArrayElement::$kind(got) => {
                    assert!(got == want, "verif: typed-array element cast is trunc(x) modulo 2^k")
                }
                _ => panic!("verif: cast produced an element of another kind"),
            }
            kani::cover!(((bits >> 52) & 0x7FF) >= 1023 + $k && !vm::is_nan_bits(bits) && !vm::is_inf_bits(bits), "finite |x| >= 2^k");
            kani::cover!(bits >> 63 == 1 && want != 0, "negative operand, non-zero residue");
            kani::cover!(vm::is_nan_bits(bits), "NaN");
            kani::cover!(true, "reaches end");
        }
    };
}

// @harness h15e_cast_int8 tier=quick props=C15,C02
// @bounds none: ∀ 2^64 double bit patterns (⊇ the widening of every source element of every Number kind)
// @domain ∀ x: TypedArrayKind::Int8.to_element_f64(x)
// @claim == Int8((trunc(x) mod 2^8) as i8); NaN/±∞ ↦ 0
// @stubs std::rt::thread_cleanup→{}
to_elem!(h15e_cast_int8, Int8, i8, 8);
// @harness h15e_cast_uint8 tier=quick props=C15,C02
// @bounds none: ∀ 2^64 double bit patterns
// @domain ∀ x: TypedArrayKind::Uint8.to_element_f64(x)
// @claim == Uint8(trunc(x) mod 2^8)
// @stubs std::rt::thread_cleanup→{}
to_elem!(h15e_cast_uint8, Uint8, u8, 8);
// @harness h15e_cast_int16 tier=quick props=C15,C02
// @bounds none: ∀ 2^64 double bit patterns
// @domain ∀ x: TypedArrayKind::Int16.to_element_f64(x)
// @claim == Int16((trunc(x) mod 2^16) as i16)
// @stubs std::rt::thread_cleanup→{}
to_elem!(h15e_cast_int16, Int16, i16, 16);
// @harness h15e_cast_uint16 tier=quick props=C15,C02
// @bounds none: ∀ 2^64 double bit patterns
// @domain ∀ x: TypedArrayKind::Uint16.to_element_f64(x)
// @claim == Uint16(trunc(x) mod 2^16)
// @stubs std::rt::thread_cleanup→{}
to_elem!(h15e_cast_uint16, Uint16, u16, 16);
// @harness h15e_cast_int32 tier=quick props=C15,C02
// @bounds none: ∀ 2^64 double bit patterns
// @domain ∀ x: TypedArrayKind::Int32.to_element_f64(x)
// @claim == Int32(ToInt32(x))
// @stubs std::rt::thread_cleanup→{}
to_elem!(h15e_cast_int32, Int32, i32, 32);
// @harness h15e_cast_uint32 tier=quick props=C15,C02
// @bounds none: ∀ 2^64 double bit patterns
// @domain ∀ x: TypedArrayKind::Uint32.to_element_f64(x)
// @claim == Uint32(ToUint32(x))
// @stubs std::rt::thread_cleanup→{}
to_elem!(h15e_cast_uint32, Uint32, u32, 32);

// @harness h15e_cast_uint8clamped tier=quick props=C15,C02
// @bounds none: ∀ 2^64 double bit patterns
// @domain ∀ x: TypedArrayKind::Uint8Clamped.to_element_f64(x)
// @claim == ToUint8Clamp(x): clamp to [0,255], ties to even (0.5 ↦ 0, 1.5 ↦ 2, 2.5 ↦ 2); NaN ↦ 0
// @stubs std::rt::thread_cleanup→{}
#[kani::proof]
#[kani::stub(std::rt::thread_cleanup, noop)]
fn h15e_cast_uint8clamped() {
    let bits: u64 = kani::any();
    // @kf-point h15e_cast_uint8clamped
    let e = TypedArrayKind::Uint8Clamped.to_element_f64(f64::from_bits(bits));
    let want = vm::to_uint8_clamp(bits);
    match e {
        TypedArrayElement::Uint8Clamped(got) => {
            assert!(got.0 == want, "verif: clamped element cast is ToUint8Clamp (ties to even)")
        }
        _ => panic!("verif: cast produced an element of another kind"),
    }
    kani::cover!(bits == 0x3FE0_0000_0000_0000, "0.5");
    kani::cover!(bits == 0x4004_0000_0000_0000, "2.5");
    kani::cover!(vm::is_nan_bits(bits), "NaN");
    kani::cover!(true, "reaches end");
}

// @harness h15e_cast_float tier=quick props=C15,C02
// @bounds none: ∀ 2^64 double bit patterns
// @domain ∀ x: TypedArrayKind::Float64 / Float32 .to_element_f64(x)
// @claim Float64 keeps the value (SameValue); Float32 is the IEEE round-to-nearest narrowing of x
// @stubs std::rt::thread_cleanup→{}
#[kani::proof]
#[kani::stub(std::rt::thread_cleanup, noop)]
fn h15e_cast_float() {
    let bits: u64 = kani::any();
    let x = f64::from_bits(bits);
    match TypedArrayKind::Float64.to_element_f64(x) {
        TypedArrayElement::Float64(got) => assert!(vm::same_value_bits(got.to_bits(), bits), "verif: Float64 cast keeps the value"),
        _ => panic!("verif: cast produced an element of another kind"),
    }
    match TypedArrayKind::Float32.to_element_f64(x) {
        TypedArrayElement::Float32(got) => {
            let want = x as f32;
            assert!(got.to_bits() == want.to_bits() || (got.is_nan() && want.is_nan()), "verif: Float32 cast is the IEEE narrowing")
        }
        _ => panic!("verif: cast produced an element of another kind"),
    }
    kani::cover!(true, "reaches end");
}

// @harness h15e_widen_ints tier=quick props=C15
// @bounds none
// @domain ∀ x of i8,u8,i16,u16,i32,u32: TypedArrayElement::K(x).as_f64()
// @claim equals x exactly (the source side of cast)
// @stubs std::rt::thread_cleanup→{}
#[kani::proof]
#[kani::stub(std::rt::thread_cleanup, noop)]
fn h15e_widen_ints() {
    let a: i8 = kani::any();
    let b: u8 = kani::any();
    let c: i16 = kani::any();
    let d: u16 = kani::any();
    let e: i32 = kani::any();
    let f: u32 = kani::any();
    assert!(TypedArrayElement::Int8(a).as_f64() == f64::from(a), "verif: as_f64 widens exactly");
    assert!(TypedArrayElement::Uint8(b).as_f64() == f64::from(b), "verif: as_f64 widens exactly");
    assert!(TypedArrayElement::Uint8Clamped(ClampedU8(b)).as_f64() == f64::from(b), "verif: as_f64 widens exactly");
    assert!(TypedArrayElement::Int16(c).as_f64() == f64::from(c), "verif: as_f64 widens exactly");
    assert!(TypedArrayElement::Uint16(d).as_f64() == f64::from(d), "verif: as_f64 widens exactly");
    assert!(TypedArrayElement::Int32(e).as_f64() == f64::from(e), "verif: as_f64 widens exactly");
    assert!(TypedArrayElement::Uint32(f).as_f64() == f64::from(f), "verif: as_f64 widens exactly");
    kani::cover!(true, "reaches end");
}

// @harness h15e_cast_signed_unsigned tier=quick props=C15
// @bounds none
// @domain ∀ x∈u8: Uint8(x).cast(Int8); ∀ y∈i32: Int32(y).cast(Uint32), Int32(y).cast(Uint8)
// @claim two's-complement reinterpretation / truncation (new Int8Array(new Uint8Array([239]))[0] == -17)
// @stubs std::rt::thread_cleanup→{}
#[kani::proof]
#[kani::stub(std::rt::thread_cleanup, noop)]
fn h15e_cast_signed_unsigned() {
    let x: u8 = kani::any();
    let y: i32 = kani::any();
    // @kf-point h15e_cast_signed_unsigned
    assert!(TypedArrayElement::Uint8(x).cast(TypedArrayKind::Int8) == TypedArrayElement::Int8(x as i8), "verif: Uint8 → Int8 wraps");
    assert!(TypedArrayElement::Int32(y).cast(TypedArrayKind::Uint32) == TypedArrayElement::Uint32(y as u32), "verif: Int32 → Uint32 wraps");
    assert!(TypedArrayElement::Int32(y).cast(TypedArrayKind::Uint8) == TypedArrayElement::Uint8(y as u8), "verif: Int32 → Uint8 truncates");
    kani::cover!(x == 239, "239");
    kani::cover!(true, "reaches end");
}

// @harness h15e_to_bits tier=quick props=C15
// @bounds none
// @domain ∀ element of every kind (Float16 excluded: feature off), ∀ payload
// @claim to_bits() keeps the element: narrowing the u64 back to the element type returns the payload (the form Atomics.compareExchange/store rely on)
// @stubs std::rt::thread_cleanup→{}
#[kani::proof]
#[kani::stub(std::rt::thread_cleanup, noop)]
fn h15e_to_bits() {
    let a: i8 = kani::any();
    let b: u8 = kani::any();
    let c: i16 = kani::any();
    let d: u16 = kani::any();
    let e: i32 = kani::any();
    let f: u32 = kani::any();
    let g: i64 = kani::any();
    let h: u64 = kani::any();
    assert!(TypedArrayElement::Int8(a).to_bits() as i8 == a, "verif: to_bits keeps the payload");
    assert!(TypedArrayElement::Uint8(b).to_bits() == b as u64, "verif: to_bits keeps the payload");
    assert!(TypedArrayElement::Uint8Clamped(ClampedU8(b)).to_bits() == b as u64, "verif: to_bits keeps the payload");
    assert!(TypedArrayElement::Int16(c).to_bits() as i16 == c, "verif: to_bits keeps the payload");
    assert!(TypedArrayElement::Uint16(d).to_bits() == d as u64, "verif: to_bits keeps the payload");
    assert!(TypedArrayElement::Int32(e).to_bits() as i32 == e, "verif: to_bits keeps the payload");
    assert!(TypedArrayElement::Uint32(f).to_bits() == f as u64, "verif: to_bits keeps the payload");
    assert!(TypedArrayElement::BigInt64(g).to_bits() as i64 == g, "verif: to_bits keeps the payload");
    assert!(TypedArrayElement::BigUint64(h).to_bits() == h, "verif: to_bits keeps the payload");
    assert!(TypedArrayElement::Float32(f32::from_bits(f)).to_bits() == f as u64, "verif: to_bits keeps the payload");
    assert!(TypedArrayElement::Float64(f64::from_bits(h)).to_bits() == h, "verif: to_bits keeps the payload");
    // BigInt kinds: cast keeps the 64 bits
    assert!(TypedArrayElement::BigInt64(g).cast(TypedArrayKind::BigUint64) == TypedArrayElement::BigUint64(g as u64), "verif: BigInt64 → BigUint64 wraps");
    assert!(TypedArrayElement::BigUint64(h).cast(TypedArrayKind::BigInt64) == TypedArrayElement::BigInt64(h as i64), "verif: BigUint64 → BigInt64 wraps");
    kani::cover!(true, "reaches end");
}
