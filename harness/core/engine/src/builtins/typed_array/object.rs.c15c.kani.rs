// C15 — typed array bounds arithmetic: whatever (byte_offset, array_length, kind) a view caches and whatever
// the CURRENT byte length of its buffer is (resize/shrink in between), an index accepted by validate_index*
// addresses bytes inside the buffer.  The TypedArray is partially initialised: only the four fields the
// kernels read are written; `viewed_array_buffer` is never touched (a read would fail a CBMC check => inconclusive).
use super::*;
use crate::verif_kani_lib_model as vm;
use std::mem::MaybeUninit;
use std::ptr::addr_of_mut;

const MAX: u64 = 1 << 53; // buffer byte lengths are capped below 2^53 at allocation time

fn kind_of(k: u8) -> TypedArrayKind {
    match k {
        0 => TypedArrayKind::Int8,
        1 => TypedArrayKind::Uint8,
        2 => TypedArrayKind::Uint8Clamped,
        3 => TypedArrayKind::Int16,
        4 => TypedArrayKind::Uint16,
        5 => TypedArrayKind::Int32,
        6 => TypedArrayKind::Uint32,
        7 => TypedArrayKind::BigInt64,
        8 => TypedArrayKind::BigUint64,
        9 => TypedArrayKind::Float32,
        _ => TypedArrayKind::Float64,
    }
}

struct View {
    slot: &'static mut MaybeUninit<TypedArray>,
    offset: u64,
    len: Option<u64>,
    elem: u64,
}
impl View {
    fn ta(&self) -> &TypedArray {
        // SAFETY: the fields read by the kernels under test were initialised in `any_view`
        unsafe { &*self.slot.as_ptr() }
    }
}

fn any_view() -> View {
    let k: u8 = kani::any();
    kani::assume(k <= 10);
    let kind = kind_of(k);
    let offset: u64 = kani::any();
    let len: Option<u64> = if kani::any() { Some(kani::any()) } else { None };
    kani::assume(offset <= MAX);
    if let Some(l) = len {
        kani::assume(l <= MAX);
    }
    let elem = kind.element_size();
    let slot: &'static mut MaybeUninit<TypedArray> = Box::leak(Box::new(MaybeUninit::uninit()));
    let p = slot.as_mut_ptr();
    // SAFETY: writing plain fields of an uninitialised struct through raw pointers
    unsafe {
        addr_of_mut!((*p).kind).write(kind);
        addr_of_mut!((*p).byte_offset).write(offset);
        addr_of_mut!((*p).array_length).write(len);
        addr_of_mut!((*p).byte_length).write(len.map(|l| l * elem));
    }
    View { slot, offset, len, elem }
}

// @harness h15c_bounds_u64 tier=quick props=C15,C02
// @bounds byte_offset, array_length, buffer byte length ≤ 2^53 (the allocation-time cap), all 11 element kinds, fixed-length and length-tracking views
// @domain ∀ kind, ∀ byte_offset, ∀ array_length ∈ {auto} ∪ u64, ∀ current buffer length, ∀ index∈u64
// @claim no overflow/panic; is_out_of_bounds ≡ (offset > buf ∨ offset + len·elem > buf); when in bounds: offset + array_length()·elem ≤ buf and byte_length() ≤ buf − offset; validate_index_u64(i) = Some(j) ⇒ j = i ∧ offset + (j+1)·elem ≤ buf (the element lies inside the buffer), = None ⇒ out of bounds or i ≥ length
#[kani::proof]
fn h15c_bounds_u64() {
    let v = any_view();
    let buf: usize = kani::any();
    kani::assume((buf as u64) <= MAX);
    let b = buf as u64;
    let ta = v.ta();
    let oob = ta.is_out_of_bounds(buf);
    let want_oob = v.offset > b || v.len.map_or(false, |l| v.offset + l * v.elem > b);
    assert!(oob == want_oob, "verif: IsTypedArrayOutOfBounds");
    let idx: u64 = kani::any();
    let r = ta.validate_index_u64(idx, buf);
    if oob {
        assert!(r.is_none(), "verif: no index is valid in an out-of-bounds view");
        assert!(ta.byte_length(buf) == 0, "verif: byte_length of an out-of-bounds view is 0");
    } else {
        let n = ta.array_length(buf);
        assert!(v.offset + n * v.elem <= b, "verif: the view's elements lie inside the buffer");
        assert!(v.len.map_or(true, |l| n == l), "verif: fixed-length views report their cached length");
        assert!(v.len.is_some() || (b - v.offset - n * v.elem) < v.elem, "verif: length-tracking views cover every whole element");
        assert!(ta.byte_length(buf) == n * v.elem, "verif: byte_length is length × element size");
        match r {
            Some(j) => {
                assert!(j == idx && idx < n, "verif: an accepted index is the requested one and below the length");
                assert!(v.offset + (j + 1) * v.elem <= b, "verif: an accepted index addresses bytes inside the buffer");
            }
            None => assert!(idx >= n, "verif: an in-range index is accepted"),
        }
    }
    kani::cover!(!oob && v.len.is_none() && b > v.offset, "length-tracking view in bounds");
    kani::cover!(oob && v.len.is_some() && v.offset <= b, "fixed view made out of bounds by a shrink");
    kani::cover!(!oob && r.is_some() && v.elem == 8, "accepted index in a 64-bit view");
    kani::cover!(true, "reaches end");
}

// @harness h15c_bounds_f64 tier=quick props=C15,C02
// @bounds as h15c_bounds_u64; the index is ∀ double bit pattern
// @domain ∀ view, ∀ buffer length, ∀ index∈f64 bits
// @claim validate_index(x) = Some(j) ⇒ x is an integer, not −0, x = j exactly, j < length and the element lies inside the buffer; NaN, ±∞, fractions, −0 and negatives are rejected; an integral in-range index is accepted
#[kani::proof]
fn h15c_bounds_f64() {
    let v = any_view();
    let buf: usize = kani::any();
    kani::assume((buf as u64) <= MAX);
    let b = buf as u64;
    let ta = v.ta();
    let bits: u64 = kani::any();
    let x = f64::from_bits(bits);
    let r = ta.validate_index(x, buf);
    let oob = v.offset > b || v.len.map_or(false, |l| v.offset + l * v.elem > b);
    // integer model of "x is a non-negative integer < 2^64, not -0": exact u64 value if so
    let as_int: Option<u64> = if bits == 0 {
        Some(0)
    } else {
        match vm::decode(bits) {
            None => None, // NaN, inf, -0
            Some(d) => {
                if d.neg {
                    None
                } else if d.e >= 0 {
                    if d.e > 10 { None } else { Some(d.m << (d.e as u32)) } // < 2^64
                } else {
                    let s = (-d.e) as u32;
                    if s >= 64 || d.m & ((1u64 << s) - 1) != 0 { None } else { Some(d.m >> s) }
                }
            }
        }
    };
    match r {
        Some(j) => {
            assert!(!oob, "verif: no index is valid in an out-of-bounds view");
            assert!(as_int == Some(j), "verif: an accepted index is exactly the integer the double denotes (no −0, fraction, NaN)");
            let n = if let Some(l) = v.len { l } else { (b - v.offset) / v.elem };
            assert!(j < n && v.offset + (j + 1) * v.elem <= b, "verif: an accepted index addresses bytes inside the buffer");
        }
        None => {
            if !oob {
                let n = if let Some(l) = v.len { l } else { (b - v.offset) / v.elem };
                assert!(as_int.map_or(true, |i| i >= n), "verif: an integral in-range index is accepted");
            }
        }
    }
    kani::cover!(bits == 0x8000_0000_0000_0000, "-0 rejected");
    kani::cover!(r.is_some() && as_int.unwrap_or(0) > 0, "positive index accepted");
    kani::cover!(r.is_none() && !oob && as_int.is_some(), "integral index ≥ length rejected");
    kani::cover!(true, "reaches end");
}
