// C12 — the typed-array read path manufactures JsValues from raw element bits: every Number-kind element,
// for every bit pattern, becomes a Number (and nothing else) that is SameValue to the element's numeric value.
use super::*;
use crate::verif_kani_lib_model as vm;
use std::mem::forget;

fn noop() {}

macro_rules! elem_to_value {
    ($name:ident, $t:ty, $variant:ident, $wrap:expr) => {
        #[kani::proof]
        #[kani::stub(std::rt::thread_cleanup, noop)]
        fn $name() {
            let x: $t = kani::any();
            let wrap = $wrap;
            let v = JsValue::from(TypedArrayElement::$variant(wrap(x)));
            let r = crate::value::verif_kani_mod_pubhelp::read_number(&v);
            assert!(r.is_some(), "verif: an integer element reads back as a Number");
            let (is_int, iv, fb) = r.unwrap();
            let got = if is_int { f64::from(iv) } else { f64::from_bits(fb) };
            assert!(got.to_bits() == (x as f64).to_bits(), "verif: integer element value is preserved exactly");
            kani::cover!(x as i64 == <$t>::MAX as i64, "largest element");
            kani::cover!(true, "reaches end");
            forget(v);
        }
    };
}

// @harness h12c_elem_i8 tier=quick props=C12
// @bounds none
// @domain ∀ x∈i8: JsValue::from(TypedArrayElement::Int8(x))
// @claim a Number equal to x
elem_to_value!(h12c_elem_i8, i8, Int8, |x| x);
// @harness h12c_elem_u8 tier=quick props=C12
// @bounds none
// @domain ∀ x∈u8: Uint8 and Uint8Clamped elements
// @claim a Number equal to x
elem_to_value!(h12c_elem_u8, u8, Uint8, |x| x);
// @harness h12c_elem_u8c tier=quick props=C12
// @bounds none
// @domain ∀ x∈u8: JsValue::from(TypedArrayElement::Uint8Clamped(ClampedU8(x)))
// @claim a Number equal to x
elem_to_value!(h12c_elem_u8c, u8, Uint8Clamped, |x| ClampedU8(x));
// @harness h12c_elem_i16 tier=quick props=C12
// @bounds none
// @domain ∀ x∈i16
// @claim a Number equal to x
elem_to_value!(h12c_elem_i16, i16, Int16, |x| x);
// @harness h12c_elem_u16 tier=quick props=C12
// @bounds none
// @domain ∀ x∈u16
// @claim a Number equal to x
elem_to_value!(h12c_elem_u16, u16, Uint16, |x| x);
// @harness h12c_elem_i32 tier=quick props=C12
// @bounds none
// @domain ∀ x∈i32
// @claim a Number equal to x
elem_to_value!(h12c_elem_i32, i32, Int32, |x| x);
// @harness h12c_elem_u32 tier=quick props=C12
// @bounds none
// @domain ∀ x∈u32
// @claim a Number equal to x (values above i32::MAX included)
elem_to_value!(h12c_elem_u32, u32, Uint32, |x| x);

// @harness h12c_elem_f64 tier=quick props=C12
// @bounds none: all 2^64 bit patterns (what a Float64Array / DataView can hold)
// @domain ∀ bits∈u64: JsValue::from(TypedArrayElement::Float64(f64::from_bits(bits)))
// @claim the result is a Number: NaN for every NaN payload (never a tagged non-number), the same value otherwise (−0 stays −0)
// @stubs std::rt::thread_cleanup→{}
#[kani::proof]
#[kani::stub(std::rt::thread_cleanup, noop)]
fn h12c_elem_f64() {
    let bits: u64 = kani::any();
    let v = JsValue::from(TypedArrayElement::Float64(f64::from_bits(bits)));
    let r = crate::value::verif_kani_mod_pubhelp::read_number(&v);
    assert!(r.is_some(), "verif: a Float64 element reads back as a Number for every bit pattern");
    // (which Number representation is chosen is not observable; only the value is)
    let (is_int, iv, fb) = r.unwrap();
    let got = if is_int { f64::from(iv).to_bits() } else { fb };
    assert!(vm::same_value_bits(got, bits), "verif: Float64 element value is preserved (NaN stays NaN, -0 stays -0)");
    kani::cover!(bits == 0x8000_0000_0000_0000, "-0");
    kani::cover!((bits >> 48) == 0x7FFC, "NaN payload coinciding with the object tag");
    kani::cover!((bits >> 48) == 0xFFF9, "negative NaN payload coinciding with the int32 tag");
    kani::cover!(true, "reaches end");
    forget(v);
}

// @harness h12c_elem_f32 tier=quick props=C12
// @bounds none: all 2^32 bit patterns
// @domain ∀ bits∈u32: JsValue::from(TypedArrayElement::Float32(f32::from_bits(bits)))
// @claim a Number SameValue to the widened f32 (NaN stays NaN, −0 stays −0)
// @stubs std::rt::thread_cleanup→{}
#[kani::proof]
#[kani::stub(std::rt::thread_cleanup, noop)]
fn h12c_elem_f32() {
    let bits: u32 = kani::any();
    let f = f32::from_bits(bits);
    let v = JsValue::from(TypedArrayElement::Float32(f));
    let r = crate::value::verif_kani_mod_pubhelp::read_number(&v);
    assert!(r.is_some(), "verif: a Float32 element reads back as a Number for every bit pattern");
    let (is_int, iv, fb) = r.unwrap();
    let got = if is_int { f64::from(iv).to_bits() } else { fb };
    assert!(vm::same_value_bits(got, f64::from(f).to_bits()), "verif: Float32 element is widened losslessly (-0 stays -0)");
    kani::cover!(f.is_nan(), "f32 NaN");
    kani::cover!(true, "reaches end");
    forget(v);
}
