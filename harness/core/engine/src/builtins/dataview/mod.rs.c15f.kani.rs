// C15 — DataView bounds arithmetic: whatever (byte_offset, byte_length|auto) a view caches and whatever the
// CURRENT byte length of its buffer is (resize/shrink in between), IsViewOutOfBounds is the specified predicate and an
// in-bounds view's GetViewByteLength window lies inside the buffer, so the accept test of get/setViewValue
// (`getIndex + elementSize <= viewSize`) implies `viewOffset + getIndex + elementSize <= bufferByteLength`.
// The DataView is partially initialised: `viewed_array_buffer` is never touched.
use super::*;
use std::mem::MaybeUninit;
use std::ptr::addr_of_mut;

const MAX: u64 = 1 << 53; // buffer byte lengths and ToIndex results are capped below 2^53

// @harness h15f_dataview_bounds tier=quick props=C15,C02
// @bounds byte_offset, byte_length, buffer byte length, getIndex ≤ 2^53 (allocation-time / ToIndex caps); element sizes 1,2,4,8
// @domain ∀ byte_offset, ∀ byte_length ∈ {auto} ∪ u64, ∀ current buffer length, ∀ getIndex, ∀ element size
// @claim no overflow/panic; is_out_of_bounds ≡ (offset > buf ∨ offset + len > buf); in bounds ⇒ offset + byte_length() ≤ buf, and getIndex + size ≤ byte_length() ⇒ offset + getIndex + size ≤ buf
#[kani::proof]
fn h15f_dataview_bounds() {
    let offset: u64 = kani::any();
    let len: Option<u64> = if kani::any() { Some(kani::any()) } else { None };
    kani::assume(offset <= MAX);
    if let Some(l) = len {
        kani::assume(l <= MAX);
    }
    let slot: &'static mut MaybeUninit<DataView> = Box::leak(Box::new(MaybeUninit::uninit()));
    let p = slot.as_mut_ptr();
    // SAFETY: writing plain fields of an uninitialised struct through raw pointers
    unsafe {
        addr_of_mut!((*p).byte_offset).write(offset);
        addr_of_mut!((*p).byte_length).write(len);
    }
    // SAFETY: the fields read by the kernels under test are initialised
    let view: &DataView = unsafe { &*slot.as_ptr() };
    let buf: usize = kani::any();
    kani::assume((buf as u64) <= MAX);
    let b = buf as u64;

    let oob = view.is_out_of_bounds(buf);
    let want = offset > b || len.map_or(false, |l| offset + l > b);
    assert!(oob == want, "verif: IsViewOutOfBounds");
    if !oob {
        let size = view.byte_length(buf);
        assert!(offset + size <= b, "verif: an in-bounds view's window lies inside the buffer");
        if let Some(l) = len {
            assert!(size == l, "verif: fixed-length view keeps its length");
        } else {
            assert!(size == b - offset, "verif: length-tracking view ends at the buffer end");
        }
        let get_index: u64 = kani::any();
        kani::assume(get_index <= MAX);
        let k: u8 = kani::any();
        kani::assume(k < 4);
        let element_size = 1u64 << k;
        if get_index + element_size <= size {
            assert!(offset + get_index + element_size <= b, "verif: an accepted access lies inside the buffer");
        }
        kani::cover!(len.is_none() && size == 0, "length-tracking view at the very end");
        kani::cover!(len.is_some() && offset + size == b && size > 0, "fixed view flush with the buffer end");
    }
    kani::cover!(oob && offset <= b, "fixed view cut by a shrink");
    kani::cover!(true, "reaches end");
}
