// C13 — parseInt digit accumulation kernel `from_js_str_radix` against exact integer arithmetic.
use super::*;
use boa_string::JsStr;

/// independent digit value: 0-9, a-z / A-Z ↦ 10..35
fn digit_value(c: u8) -> Option<u32> {
    if c >= b'0' && c <= b'9' {
        Some((c - b'0') as u32)
    } else if c >= b'a' && c <= b'z' {
        Some((c - b'a') as u32 + 10)
    } else if c >= b'A' && c <= b'Z' {
        Some((c - b'A') as u32 + 10)
    } else {
        None
    }
}

/// exact value of the digit string, or None if some character is not a digit of the radix
fn exact(s: &[u8], radix: u8) -> Option<u128> {
    let mut v: u128 = 0;
    let mut i = 0;
    while i < s.len() {
        let d = digit_value(s[i])?;
        if d >= radix as u32 {
            return None;
        }
        v = v * radix as u128 + d as u128;
        i += 1;
    }
    Some(v)
}

macro_rules! digits_any_radix {
    ($name:ident, $lo:expr, $hi:expr, $n:expr) => {
        #[kani::proof]
        #[kani::unwind(6)]
        fn $name() {
            const N: usize = $n;
            let r: u8 = $lo; // concrete (an assumed-equal symbolic value is not constant-propagated by CBMC)
            let b: [u8; N] = kani::any();
            let mut i = 0;
            while i < N {
                kani::assume(b[i] < 128);
                i += 1;
            }
            let got = from_js_str_radix(JsStr::latin1(&b), r);
            match exact(&b, r) {
                None => assert!(got.is_none(), "verif: a non-digit of the radix makes the whole string invalid"),
                Some(v) => {
                    assert!(got.is_some(), "verif: digit strings of the radix are accepted");
                    // (same integer->double conversion on both sides: the value is < 2^53, so it is exact either way)
                    assert!(got.unwrap().to_bits() == (v as f64).to_bits() || got.unwrap().to_bits() == (v as u64 as f64).to_bits(), "verif: short digit string is the exact integer");
                }
            }
            kani::cover!(exact(&b, r).is_some() && (b[0] >= b'A' && b[0] <= b'Z' || r <= 10), "accepted (upper-case letter digit when the radix has letters)");
            kani::cover!(exact(&b, r) == Some(r as u128 * r as u128 * r as u128 - 1), "largest 3-digit value");
            kani::cover!(exact(&b, r).is_none(), "rejected string");
            kani::cover!(true, "reaches end");
        }
    };
}

// @harness h13a_digits_r2 tier=quick props=C13,C02
// @bounds radix 2 (concrete: a symbolic radix makes the 128-bit accumulation a symbolic×symbolic multiplication), ∀ ASCII strings of length exactly 3 (all 128^3 byte combinations incl. non-digits)
// @domain ∀ s∈{0..127}^3, radix 2
// @claim from_js_str_radix(s, 2) is None iff some character is not a digit of the radix (0-9, letters case-insensitively), else Some(exact value)
digits_any_radix!(h13a_digits_r2, 2, 2, 3);
// @harness h13a_digits_r3 tier=thorough props=C13,C02
// @bounds radix 3 (concrete: a symbolic radix makes the 128-bit accumulation a symbolic×symbolic multiplication), ∀ ASCII strings of length exactly 3 (all 128^3 byte combinations incl. non-digits)
// @domain ∀ s∈{0..127}^3, radix 3
// @claim from_js_str_radix(s, 3) is None iff some character is not a digit of the radix (0-9, letters case-insensitively), else Some(exact value)
digits_any_radix!(h13a_digits_r3, 3, 3, 3);
// @harness h13a_digits_r4 tier=thorough props=C13,C02
// @bounds radix 4 (concrete: a symbolic radix makes the 128-bit accumulation a symbolic×symbolic multiplication), ∀ ASCII strings of length exactly 3 (all 128^3 byte combinations incl. non-digits)
// @domain ∀ s∈{0..127}^3, radix 4
// @claim from_js_str_radix(s, 4) is None iff some character is not a digit of the radix (0-9, letters case-insensitively), else Some(exact value)
digits_any_radix!(h13a_digits_r4, 4, 4, 3);
// @harness h13a_digits_r5 tier=thorough props=C13,C02
// @bounds radix 5 (concrete: a symbolic radix makes the 128-bit accumulation a symbolic×symbolic multiplication), ∀ ASCII strings of length exactly 3 (all 128^3 byte combinations incl. non-digits)
// @domain ∀ s∈{0..127}^3, radix 5
// @claim from_js_str_radix(s, 5) is None iff some character is not a digit of the radix (0-9, letters case-insensitively), else Some(exact value)
digits_any_radix!(h13a_digits_r5, 5, 5, 3);
// @harness h13a_digits_r6 tier=thorough props=C13,C02
// @bounds radix 6 (concrete: a symbolic radix makes the 128-bit accumulation a symbolic×symbolic multiplication), ∀ ASCII strings of length exactly 3 (all 128^3 byte combinations incl. non-digits)
// @domain ∀ s∈{0..127}^3, radix 6
// @claim from_js_str_radix(s, 6) is None iff some character is not a digit of the radix (0-9, letters case-insensitively), else Some(exact value)
digits_any_radix!(h13a_digits_r6, 6, 6, 3);
// @harness h13a_digits_r7 tier=thorough props=C13,C02
// @bounds radix 7 (concrete: a symbolic radix makes the 128-bit accumulation a symbolic×symbolic multiplication), ∀ ASCII strings of length exactly 3 (all 128^3 byte combinations incl. non-digits)
// @domain ∀ s∈{0..127}^3, radix 7
// @claim from_js_str_radix(s, 7) is None iff some character is not a digit of the radix (0-9, letters case-insensitively), else Some(exact value)
digits_any_radix!(h13a_digits_r7, 7, 7, 3);
// @harness h13a_digits_r8 tier=quick props=C13,C02
// @bounds radix 8 (concrete: a symbolic radix makes the 128-bit accumulation a symbolic×symbolic multiplication), ∀ ASCII strings of length exactly 3 (all 128^3 byte combinations incl. non-digits)
// @domain ∀ s∈{0..127}^3, radix 8
// @claim from_js_str_radix(s, 8) is None iff some character is not a digit of the radix (0-9, letters case-insensitively), else Some(exact value)
digits_any_radix!(h13a_digits_r8, 8, 8, 3);
// @harness h13a_digits_r9 tier=thorough props=C13,C02
// @bounds radix 9 (concrete: a symbolic radix makes the 128-bit accumulation a symbolic×symbolic multiplication), ∀ ASCII strings of length exactly 3 (all 128^3 byte combinations incl. non-digits)
// @domain ∀ s∈{0..127}^3, radix 9
// @claim from_js_str_radix(s, 9) is None iff some character is not a digit of the radix (0-9, letters case-insensitively), else Some(exact value)
digits_any_radix!(h13a_digits_r9, 9, 9, 3);
// @harness h13a_digits_r10 tier=quick props=C13,C02
// @bounds radix 10 (concrete: a symbolic radix makes the 128-bit accumulation a symbolic×symbolic multiplication), ∀ ASCII strings of length exactly 3 (all 128^3 byte combinations incl. non-digits)
// @domain ∀ s∈{0..127}^3, radix 10
// @claim from_js_str_radix(s, 10) is None iff some character is not a digit of the radix (0-9, letters case-insensitively), else Some(exact value)
digits_any_radix!(h13a_digits_r10, 10, 10, 3);
// @harness h13a_digits_r11 tier=thorough props=C13,C02
// @bounds radix 11 (concrete: a symbolic radix makes the 128-bit accumulation a symbolic×symbolic multiplication), ∀ ASCII strings of length exactly 3 (all 128^3 byte combinations incl. non-digits)
// @domain ∀ s∈{0..127}^3, radix 11
// @claim from_js_str_radix(s, 11) is None iff some character is not a digit of the radix (0-9, letters case-insensitively), else Some(exact value)
digits_any_radix!(h13a_digits_r11, 11, 11, 3);
// @harness h13a_digits_r12 tier=thorough props=C13,C02
// @bounds radix 12 (concrete: a symbolic radix makes the 128-bit accumulation a symbolic×symbolic multiplication), ∀ ASCII strings of length exactly 3 (all 128^3 byte combinations incl. non-digits)
// @domain ∀ s∈{0..127}^3, radix 12
// @claim from_js_str_radix(s, 12) is None iff some character is not a digit of the radix (0-9, letters case-insensitively), else Some(exact value)
digits_any_radix!(h13a_digits_r12, 12, 12, 3);
// @harness h13a_digits_r13 tier=thorough props=C13,C02
// @bounds radix 13 (concrete: a symbolic radix makes the 128-bit accumulation a symbolic×symbolic multiplication), ∀ ASCII strings of length exactly 3 (all 128^3 byte combinations incl. non-digits)
// @domain ∀ s∈{0..127}^3, radix 13
// @claim from_js_str_radix(s, 13) is None iff some character is not a digit of the radix (0-9, letters case-insensitively), else Some(exact value)
digits_any_radix!(h13a_digits_r13, 13, 13, 3);
// @harness h13a_digits_r14 tier=thorough props=C13,C02
// @bounds radix 14 (concrete: a symbolic radix makes the 128-bit accumulation a symbolic×symbolic multiplication), ∀ ASCII strings of length exactly 3 (all 128^3 byte combinations incl. non-digits)
// @domain ∀ s∈{0..127}^3, radix 14
// @claim from_js_str_radix(s, 14) is None iff some character is not a digit of the radix (0-9, letters case-insensitively), else Some(exact value)
digits_any_radix!(h13a_digits_r14, 14, 14, 3);
// @harness h13a_digits_r15 tier=thorough props=C13,C02
// @bounds radix 15 (concrete: a symbolic radix makes the 128-bit accumulation a symbolic×symbolic multiplication), ∀ ASCII strings of length exactly 3 (all 128^3 byte combinations incl. non-digits)
// @domain ∀ s∈{0..127}^3, radix 15
// @claim from_js_str_radix(s, 15) is None iff some character is not a digit of the radix (0-9, letters case-insensitively), else Some(exact value)
digits_any_radix!(h13a_digits_r15, 15, 15, 3);
// @harness h13a_digits_r16 tier=quick props=C13,C02
// @bounds radix 16 (concrete: a symbolic radix makes the 128-bit accumulation a symbolic×symbolic multiplication), ∀ ASCII strings of length exactly 3 (all 128^3 byte combinations incl. non-digits)
// @domain ∀ s∈{0..127}^3, radix 16
// @claim from_js_str_radix(s, 16) is None iff some character is not a digit of the radix (0-9, letters case-insensitively), else Some(exact value)
digits_any_radix!(h13a_digits_r16, 16, 16, 3);
// @harness h13a_digits_r17 tier=quick props=C13,C02
// @bounds radix 17 (concrete: a symbolic radix makes the 128-bit accumulation a symbolic×symbolic multiplication), ∀ ASCII strings of length exactly 3 (all 128^3 byte combinations incl. non-digits)
// @domain ∀ s∈{0..127}^3, radix 17
// @claim from_js_str_radix(s, 17) is None iff some character is not a digit of the radix (0-9, letters case-insensitively), else Some(exact value)
digits_any_radix!(h13a_digits_r17, 17, 17, 3);
// @harness h13a_digits_r18 tier=thorough props=C13,C02
// @bounds radix 18 (concrete: a symbolic radix makes the 128-bit accumulation a symbolic×symbolic multiplication), ∀ ASCII strings of length exactly 3 (all 128^3 byte combinations incl. non-digits)
// @domain ∀ s∈{0..127}^3, radix 18
// @claim from_js_str_radix(s, 18) is None iff some character is not a digit of the radix (0-9, letters case-insensitively), else Some(exact value)
digits_any_radix!(h13a_digits_r18, 18, 18, 3);
// @harness h13a_digits_r19 tier=thorough props=C13,C02
// @bounds radix 19 (concrete: a symbolic radix makes the 128-bit accumulation a symbolic×symbolic multiplication), ∀ ASCII strings of length exactly 3 (all 128^3 byte combinations incl. non-digits)
// @domain ∀ s∈{0..127}^3, radix 19
// @claim from_js_str_radix(s, 19) is None iff some character is not a digit of the radix (0-9, letters case-insensitively), else Some(exact value)
digits_any_radix!(h13a_digits_r19, 19, 19, 3);
// @harness h13a_digits_r20 tier=thorough props=C13,C02
// @bounds radix 20 (concrete: a symbolic radix makes the 128-bit accumulation a symbolic×symbolic multiplication), ∀ ASCII strings of length exactly 3 (all 128^3 byte combinations incl. non-digits)
// @domain ∀ s∈{0..127}^3, radix 20
// @claim from_js_str_radix(s, 20) is None iff some character is not a digit of the radix (0-9, letters case-insensitively), else Some(exact value)
digits_any_radix!(h13a_digits_r20, 20, 20, 3);
// @harness h13a_digits_r21 tier=thorough props=C13,C02
// @bounds radix 21 (concrete: a symbolic radix makes the 128-bit accumulation a symbolic×symbolic multiplication), ∀ ASCII strings of length exactly 3 (all 128^3 byte combinations incl. non-digits)
// @domain ∀ s∈{0..127}^3, radix 21
// @claim from_js_str_radix(s, 21) is None iff some character is not a digit of the radix (0-9, letters case-insensitively), else Some(exact value)
digits_any_radix!(h13a_digits_r21, 21, 21, 3);
// @harness h13a_digits_r22 tier=thorough props=C13,C02
// @bounds radix 22 (concrete: a symbolic radix makes the 128-bit accumulation a symbolic×symbolic multiplication), ∀ ASCII strings of length exactly 3 (all 128^3 byte combinations incl. non-digits)
// @domain ∀ s∈{0..127}^3, radix 22
// @claim from_js_str_radix(s, 22) is None iff some character is not a digit of the radix (0-9, letters case-insensitively), else Some(exact value)
digits_any_radix!(h13a_digits_r22, 22, 22, 3);
// @harness h13a_digits_r23 tier=thorough props=C13,C02
// @bounds radix 23 (concrete: a symbolic radix makes the 128-bit accumulation a symbolic×symbolic multiplication), ∀ ASCII strings of length exactly 3 (all 128^3 byte combinations incl. non-digits)
// @domain ∀ s∈{0..127}^3, radix 23
// @claim from_js_str_radix(s, 23) is None iff some character is not a digit of the radix (0-9, letters case-insensitively), else Some(exact value)
digits_any_radix!(h13a_digits_r23, 23, 23, 3);
// @harness h13a_digits_r24 tier=thorough props=C13,C02
// @bounds radix 24 (concrete: a symbolic radix makes the 128-bit accumulation a symbolic×symbolic multiplication), ∀ ASCII strings of length exactly 3 (all 128^3 byte combinations incl. non-digits)
// @domain ∀ s∈{0..127}^3, radix 24
// @claim from_js_str_radix(s, 24) is None iff some character is not a digit of the radix (0-9, letters case-insensitively), else Some(exact value)
digits_any_radix!(h13a_digits_r24, 24, 24, 3);
// @harness h13a_digits_r25 tier=thorough props=C13,C02
// @bounds radix 25 (concrete: a symbolic radix makes the 128-bit accumulation a symbolic×symbolic multiplication), ∀ ASCII strings of length exactly 3 (all 128^3 byte combinations incl. non-digits)
// @domain ∀ s∈{0..127}^3, radix 25
// @claim from_js_str_radix(s, 25) is None iff some character is not a digit of the radix (0-9, letters case-insensitively), else Some(exact value)
digits_any_radix!(h13a_digits_r25, 25, 25, 3);
// @harness h13a_digits_r26 tier=thorough props=C13,C02
// @bounds radix 26 (concrete: a symbolic radix makes the 128-bit accumulation a symbolic×symbolic multiplication), ∀ ASCII strings of length exactly 3 (all 128^3 byte combinations incl. non-digits)
// @domain ∀ s∈{0..127}^3, radix 26
// @claim from_js_str_radix(s, 26) is None iff some character is not a digit of the radix (0-9, letters case-insensitively), else Some(exact value)
digits_any_radix!(h13a_digits_r26, 26, 26, 3);
// @harness h13a_digits_r27 tier=thorough props=C13,C02
// @bounds radix 27 (concrete: a symbolic radix makes the 128-bit accumulation a symbolic×symbolic multiplication), ∀ ASCII strings of length exactly 3 (all 128^3 byte combinations incl. non-digits)
// @domain ∀ s∈{0..127}^3, radix 27
// @claim from_js_str_radix(s, 27) is None iff some character is not a digit of the radix (0-9, letters case-insensitively), else Some(exact value)
digits_any_radix!(h13a_digits_r27, 27, 27, 3);
// @harness h13a_digits_r28 tier=thorough props=C13,C02
// @bounds radix 28 (concrete: a symbolic radix makes the 128-bit accumulation a symbolic×symbolic multiplication), ∀ ASCII strings of length exactly 3 (all 128^3 byte combinations incl. non-digits)
// @domain ∀ s∈{0..127}^3, radix 28
// @claim from_js_str_radix(s, 28) is None iff some character is not a digit of the radix (0-9, letters case-insensitively), else Some(exact value)
digits_any_radix!(h13a_digits_r28, 28, 28, 3);
// @harness h13a_digits_r29 tier=thorough props=C13,C02
// @bounds radix 29 (concrete: a symbolic radix makes the 128-bit accumulation a symbolic×symbolic multiplication), ∀ ASCII strings of length exactly 3 (all 128^3 byte combinations incl. non-digits)
// @domain ∀ s∈{0..127}^3, radix 29
// @claim from_js_str_radix(s, 29) is None iff some character is not a digit of the radix (0-9, letters case-insensitively), else Some(exact value)
digits_any_radix!(h13a_digits_r29, 29, 29, 3);
// @harness h13a_digits_r30 tier=thorough props=C13,C02
// @bounds radix 30 (concrete: a symbolic radix makes the 128-bit accumulation a symbolic×symbolic multiplication), ∀ ASCII strings of length exactly 3 (all 128^3 byte combinations incl. non-digits)
// @domain ∀ s∈{0..127}^3, radix 30
// @claim from_js_str_radix(s, 30) is None iff some character is not a digit of the radix (0-9, letters case-insensitively), else Some(exact value)
digits_any_radix!(h13a_digits_r30, 30, 30, 3);
// @harness h13a_digits_r31 tier=thorough props=C13,C02
// @bounds radix 31 (concrete: a symbolic radix makes the 128-bit accumulation a symbolic×symbolic multiplication), ∀ ASCII strings of length exactly 3 (all 128^3 byte combinations incl. non-digits)
// @domain ∀ s∈{0..127}^3, radix 31
// @claim from_js_str_radix(s, 31) is None iff some character is not a digit of the radix (0-9, letters case-insensitively), else Some(exact value)
digits_any_radix!(h13a_digits_r31, 31, 31, 3);
// @harness h13a_digits_r32 tier=quick props=C13,C02
// @bounds radix 32 (concrete: a symbolic radix makes the 128-bit accumulation a symbolic×symbolic multiplication), ∀ ASCII strings of length exactly 3 (all 128^3 byte combinations incl. non-digits)
// @domain ∀ s∈{0..127}^3, radix 32
// @claim from_js_str_radix(s, 32) is None iff some character is not a digit of the radix (0-9, letters case-insensitively), else Some(exact value)
digits_any_radix!(h13a_digits_r32, 32, 32, 3);
// @harness h13a_digits_r33 tier=thorough props=C13,C02
// @bounds radix 33 (concrete: a symbolic radix makes the 128-bit accumulation a symbolic×symbolic multiplication), ∀ ASCII strings of length exactly 3 (all 128^3 byte combinations incl. non-digits)
// @domain ∀ s∈{0..127}^3, radix 33
// @claim from_js_str_radix(s, 33) is None iff some character is not a digit of the radix (0-9, letters case-insensitively), else Some(exact value)
digits_any_radix!(h13a_digits_r33, 33, 33, 3);
// @harness h13a_digits_r34 tier=thorough props=C13,C02
// @bounds radix 34 (concrete: a symbolic radix makes the 128-bit accumulation a symbolic×symbolic multiplication), ∀ ASCII strings of length exactly 3 (all 128^3 byte combinations incl. non-digits)
// @domain ∀ s∈{0..127}^3, radix 34
// @claim from_js_str_radix(s, 34) is None iff some character is not a digit of the radix (0-9, letters case-insensitively), else Some(exact value)
digits_any_radix!(h13a_digits_r34, 34, 34, 3);
// @harness h13a_digits_r35 tier=thorough props=C13,C02
// @bounds radix 35 (concrete: a symbolic radix makes the 128-bit accumulation a symbolic×symbolic multiplication), ∀ ASCII strings of length exactly 3 (all 128^3 byte combinations incl. non-digits)
// @domain ∀ s∈{0..127}^3, radix 35
// @claim from_js_str_radix(s, 35) is None iff some character is not a digit of the radix (0-9, letters case-insensitively), else Some(exact value)
digits_any_radix!(h13a_digits_r35, 35, 35, 3);
// @harness h13a_digits_r36 tier=quick props=C13,C02
// @bounds radix 36 (concrete: a symbolic radix makes the 128-bit accumulation a symbolic×symbolic multiplication), ∀ ASCII strings of length exactly 3 (all 128^3 byte combinations incl. non-digits)
// @domain ∀ s∈{0..127}^3, radix 36
// @claim from_js_str_radix(s, 36) is None iff some character is not a digit of the radix (0-9, letters case-insensitively), else Some(exact value)
digits_any_radix!(h13a_digits_r36, 36, 36, 3);
// @harness h13a_empty tier=quick props=C13,C02
// @bounds radices 2, 16, 36; the empty string
// @domain s = "", r ∈ {2,16,36}
// @claim from_js_str_radix("", r) == Some(+0) (parseInt itself maps an empty digit string to NaN before calling the kernel)
#[kani::proof]
#[kani::unwind(6)]
fn h13a_empty() {
    let e: [u8; 0] = [];
    let g2 = from_js_str_radix(JsStr::latin1(&e), 2);
    let g16 = from_js_str_radix(JsStr::latin1(&e), 16);
    let g36 = from_js_str_radix(JsStr::latin1(&e), 36);
    assert!(g2 == Some(0.0) && g16 == Some(0.0) && g36 == Some(0.0), "verif: empty digit string is +0");
    kani::cover!(true, "reaches end");
}

macro_rules! exact_path {
    ($name:ident, $radix:expr, $n:expr, $unwind:expr) => {
        #[kani::proof]
        #[kani::unwind($unwind)]
        fn $name() {
            const N: usize = $n;
            let b: [u8; N] = kani::any();
            let mut i = 0;
            while i < N {
                kani::assume(digit_value(b[i]).is_some() && digit_value(b[i]).unwrap() < $radix);
                i += 1;
            }
            let got = from_js_str_radix(JsStr::latin1(&b), $radix).expect("verif: digit strings are accepted");
            let v = exact(&b, $radix).unwrap();
            // @kf-point $name
            assert!(got.to_bits() == (v as f64).to_bits(), "verif: parseInt digits are the correctly rounded exact integer");
            kani::cover!(v > (1u128 << 53), "value above 2^53 (rounding matters)");
            kani::cover!(true, "reaches end");
        }
    };
}

// @harness h13a_exact_r10_n16 tier=quick props=C13,C02
// @bounds radix 10, exactly 16 digits (the longest string on the exact u64 path), ∀ digit values
// @domain ∀ s∈[0-9]^16
// @claim from_js_str_radix(s,10) == (exact value) as f64, correctly rounded; the u64 accumulation cannot overflow
exact_path!(h13a_exact_r10_n16, 10, 16, 18);
// @harness h13a_exact_r16_n16 tier=quick props=C13,C02
// @bounds radix 16, exactly 16 digits (64 bits: the overflow boundary of the u64 path), ∀ digit values, both letter cases
// @domain ∀ s∈[0-9a-fA-F]^16
// @claim from_js_str_radix(s,16) == (exact value) as f64, correctly rounded; no u64 overflow at the boundary
exact_path!(h13a_exact_r16_n16, 16, 16, 18);
// @harness h13a_float_r32_n12 tier=quick props=C13,C02
// @bounds radix 32, exactly 12 digits (60 bits: beyond 2^53 on the floating-point accumulation path), ∀ digit values
// @domain ∀ s∈[0-9a-vA-V]^12
// @claim from_js_str_radix(s,32) == (exact value) as f64, correctly rounded (radix 32 must be exact for ≤ 20 significant digits)
exact_path!(h13a_float_r32_n12, 32, 12, 14);
// @harness h13a_float_r10_n17 tier=thorough props=C13,C02
// @bounds radix 10, exactly 17 digits (the shortest decimal string on the floating-point accumulation path)
// @domain ∀ s∈[0-9]^17
// @claim from_js_str_radix(s,10) == (exact value) as f64, correctly rounded
exact_path!(h13a_float_r10_n17, 10, 17, 19);

// @harness h13a_exact_r16_n27 tier=quick props=C13,C02
// @bounds radix 16, exactly 27 digits (108 bits: above the u64 path, inside the exact 128-bit path), ∀ digit values
// @domain ∀ s∈[0-9a-fA-F]^27
// @claim from_js_str_radix(s,16) == (exact value) as f64, correctly rounded (radix 16 must be exact for ≤ 20 significant digits and the implementation promises exactness whenever the value fits 128 bits)
exact_path!(h13a_exact_r16_n27, 16, 27, 29);
// @harness h13a_exact_r32_n22 tier=quick props=C13,C02
// @bounds radix 32, exactly 22 digits (110 bits), ∀ digit values
// @domain ∀ s∈[0-9a-vA-V]^22
// @claim from_js_str_radix(s,32) == (exact value) as f64, correctly rounded
exact_path!(h13a_exact_r32_n22, 32, 22, 24);
// @harness h13a_exact_r8_n34 tier=thorough props=C13,C02
// @bounds radix 8, exactly 34 digits (102 bits), ∀ digit values
// @domain ∀ s∈[0-7]^34
// @claim from_js_str_radix(s,8) == (exact value) as f64, correctly rounded
exact_path!(h13a_exact_r8_n34, 8, 34, 36);
// @harness h13a_exact_r2_n66 tier=thorough props=C13,C02
// @bounds radix 2, exactly 66 digits (66 bits), ∀ digit values
// @domain ∀ s∈[01]^66
// @claim from_js_str_radix(s,2) == (exact value) as f64, correctly rounded
exact_path!(h13a_exact_r2_n66, 2, 66, 68);
// @harness h13a_exact_r10_n20 tier=quick props=C13,C02
// @bounds radix 10, exactly 20 digits (the 19–20 digit integers the property names), ∀ digit values
// @domain ∀ s∈[0-9]^20
// @claim from_js_str_radix(s,10) == (exact value) as f64, correctly rounded
exact_path!(h13a_exact_r10_n20, 10, 20, 22);
