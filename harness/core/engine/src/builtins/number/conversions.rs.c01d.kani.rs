// C01/C13/C15 — ToInt32 / ToUint32 kernel against the spec: trunc(x) modulo 2^32.
use super::*;
use crate::verif_kani_lib_model as vm;

// @harness h01d_to_int32 tier=quick props=C01,C13,C15,C02
// @bounds none: all 2^64 double bit patterns
// @domain ∀ bits∈u64: x = f64::from_bits(bits)
// @claim f64_to_int32(x) == ToInt32(x) and f64_to_uint32(x) == ToUint32(x), the model being trunc(x) mod 2^32 computed from sign/exponent/significand with integer arithmetic only; NaN, ±∞, ±0 ↦ 0; no panic/overflow
#[kani::proof]
fn h01d_to_int32() {
    let bits: u64 = kani::any();
    let x = f64::from_bits(bits);
    let r = f64_to_int32(x);
    assert!(r == vm::to_int32(bits), "verif: f64_to_int32 == trunc(x) mod 2^32 (signed)");
    let u = f64_to_uint32(x);
    assert!(u == vm::to_uint32(bits), "verif: f64_to_uint32 == trunc(x) mod 2^32 (unsigned)");
    kani::cover!(vm::is_nan_bits(bits), "NaN");
    kani::cover!(((bits >> 52) & 0x7FF) == 1023 + 31, "magnitude in [2^31, 2^32): wraps");
    kani::cover!(((bits >> 52) & 0x7FF) == 1023 + 60 && r != 0, "huge magnitude with non-zero residue");
    kani::cover!(((bits >> 52) & 0x7FF) == 1023 + 90, "beyond 2^84: residue 0");
    kani::cover!(bits >> 63 == 1 && r > 0, "negative input, positive result");
    kani::cover!(((bits >> 52) & 0x7FF) == 0 && bits & 0xF_FFFF_FFFF_FFFF != 0, "subnormal");
    kani::cover!(true, "reaches end");
}
