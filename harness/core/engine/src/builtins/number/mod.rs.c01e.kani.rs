// C01 — Number::{equal, sameValue, sameValueZero, lessThan, not} truth tables against integer-only
// models of the IEEE relations.
use super::*;
use crate::verif_kani_lib_model as vm;
use crate::value::AbstractRelation;

// @harness h01e_number_relations tier=quick props=C01,C02
// @bounds none: all pairs of double bit patterns (2^128)
// @domain ∀ a,b∈u64: x=f64::from_bits(a), y=f64::from_bits(b)
// @claim Number::equal ≡ IEEE == ; same_value ≡ (both NaN) ∨ bit-equal ; same_value_zero ≡ (both NaN) ∨ IEEE == ; less_than ≡ Undefined if NaN else IEEE < ; models use only integer comparisons of the bit patterns
#[kani::proof]
fn h01e_number_relations() {
    let a: u64 = kani::any();
    let b: u64 = kani::any();
    let x = f64::from_bits(a);
    let y = f64::from_bits(b);
    let nan = vm::is_nan_bits(a) || vm::is_nan_bits(b);
    let both_nan = vm::is_nan_bits(a) && vm::is_nan_bits(b);
    assert!(Number::equal(x, y) == vm::eq_bits(a, b), "verif: Number::equal is IEEE equality");
    assert!(Number::same_value(x, y) == (both_nan || (!nan && a == b)), "verif: Number::sameValue");
    assert!(Number::same_value_zero(x, y) == (both_nan || vm::eq_bits(a, b)), "verif: Number::sameValueZero");
    let lt = Number::less_than(x, y);
    let want = if nan {
        AbstractRelation::Undefined
    } else if vm::lt_bits(a, b) {
        AbstractRelation::True
    } else {
        AbstractRelation::False
    };
    assert!(lt == want, "verif: Number::lessThan");
    kani::cover!(a == 0 && b == 0x8000_0000_0000_0000, "+0 vs -0");
    kani::cover!(both_nan && a != b, "two different NaN payloads");
    kani::cover!(vm::is_inf_bits(a) && !nan && vm::lt_bits(a, b), "-inf < finite");
    kani::cover!(true, "reaches end");
}

// @harness h01e_number_not tier=quick props=C01,C02
// @bounds none
// @domain ∀ a∈u64
// @claim Number::not(x) == !ToInt32(x)
#[kani::proof]
fn h01e_number_not() {
    let a: u64 = kani::any();
    assert!(Number::not(f64::from_bits(a)) == !vm::to_int32(a), "verif: Number::bitwiseNOT");
    kani::cover!(true, "reaches end");
}
