// C15 — raw byte movers of (Shared)ArrayBuffer: every copy equals the byte-array model, touches nothing
// outside the destination range and never leaves the allocations (CBMC pointer checks), for every
// alignment of source and destination (object addresses are symbolic to CBMC).
use super::*;
use portable_atomic::AtomicU8;
use std::sync::atomic::Ordering;

// @harness h15d_batch_offsets tier=quick props=C15,C02
// @bounds ∀ addresses, ∀ counts < 2^48
// @domain ∀ addr∈usize, ∀ count < 2^48: (head, chunks, tail) = compute_batch_offsets(addr, count)
// @claim head + 8·chunks + tail == count; head, tail < 8; head == min((8 − addr mod 8) mod 8, count); when a chunk exists the first chunk address addr+head is 8-byte aligned; no overflow
#[kani::proof]
fn h15d_batch_offsets() {
    let addr: usize = kani::any();
    let count: usize = kani::any();
    kani::assume(count < (1usize << 48));
    let (head, chunks, tail) = compute_batch_offsets(addr, count);
    assert!(head < 8 && tail < 8, "verif: head and tail are shorter than a batch");
    assert!(head + chunks * 8 + tail == count, "verif: head + 8*chunks + tail == count");
    let mis = addr % 8;
    let want_head = if mis == 0 { 0 } else if 8 - mis < count { 8 - mis } else { count };
    assert!(head == want_head, "verif: head is the distance to the next 8-byte boundary, capped by count");
    if chunks > 0 {
        assert!(addr.wrapping_add(head) % 8 == 0, "verif: chunks start 8-byte aligned");
    }
    kani::cover!(chunks > 0 && head > 0 && tail > 0, "head, chunks and tail all non-empty");
    kani::cover!(head == count && mis != 0, "everything fits in the head");
    kani::cover!(true, "reaches end");
}

#[repr(align(8))]
struct Buf([AtomicU8; 24]);
#[repr(align(8))]
struct Plain([u8; 24]);

fn mk(bytes: &[u8; 24]) -> Buf {
    Buf(std::array::from_fn(|i| AtomicU8::new(bytes[i])))
}

macro_rules! copy_case {
    ($name:ident, $so:expr, $do_:expr, $maxc:expr, $kind:tt) => {
        #[kani::proof]
        #[kani::unwind(26)]
        fn $name() {
            let s: [u8; 24] = kani::any();
            let d: [u8; 24] = kani::any();
            let count: usize = kani::any();
            kani::assume(count <= $maxc);
            let so: usize = $so;
            let dof: usize = $do_;
            copy_case!(@run $kind, s, d, so, dof, count);
        }
    };
    (@run shared_to_shared, $s:ident, $d:ident, $so:ident, $dof:ident, $count:ident) => {
        let src = mk(&$s);
        let dst = mk(&$d);
        // SAFETY: so+count <= 24 and dof+count <= 24 by the bounds of the harness
        unsafe { memcpy(BytesConstPtr::AtomicBytes(src.0.as_ptr().add($so)), BytesMutPtr::AtomicBytes(dst.0.as_ptr().add($dof)), $count) };
        let mut i = 0;
        while i < 24 {
            let got = dst.0[i].load(Ordering::Relaxed);
            let want = if i >= $dof && i < $dof + $count { $s[$so + (i - $dof)] } else { $d[i] };
            assert!(got == want, "verif: shared→shared copy equals the byte model and leaves other bytes alone");
            assert!(src.0[i].load(Ordering::Relaxed) == $s[i], "verif: the source is not modified");
            i += 1;
        }
        kani::cover!($count >= 17, "at least one full 8-byte chunk with head and tail");
        kani::cover!($count == 0, "empty copy");
        kani::cover!(true, "reaches end");
    };
    (@run bytes_to_shared, $s:ident, $d:ident, $so:ident, $dof:ident, $count:ident) => {
        let src = Plain($s);
        let dst = mk(&$d);
        unsafe { memcpy(BytesConstPtr::Bytes(src.0.as_ptr().add($so)), BytesMutPtr::AtomicBytes(dst.0.as_ptr().add($dof)), $count) };
        let mut i = 0;
        while i < 24 {
            let got = dst.0[i].load(Ordering::Relaxed);
            let want = if i >= $dof && i < $dof + $count { $s[$so + (i - $dof)] } else { $d[i] };
            assert!(got == want, "verif: bytes→shared copy equals the byte model and leaves other bytes alone");
            i += 1;
        }
        kani::cover!($count >= 17, "at least one full 8-byte chunk with head and tail");
        kani::cover!(true, "reaches end");
    };
    (@run shared_to_bytes, $s:ident, $d:ident, $so:ident, $dof:ident, $count:ident) => {
        let src = mk(&$s);
        let mut dst = Plain($d);
        unsafe { memcpy(BytesConstPtr::AtomicBytes(src.0.as_ptr().add($so)), BytesMutPtr::Bytes(dst.0.as_mut_ptr().add($dof)), $count) };
        let mut i = 0;
        while i < 24 {
            let want = if i >= $dof && i < $dof + $count { $s[$so + (i - $dof)] } else { $d[i] };
            assert!(dst.0[i] == want, "verif: shared→bytes copy equals the byte model and leaves other bytes alone");
            i += 1;
        }
        kani::cover!($count >= 17, "at least one full 8-byte chunk with head and tail");
        kani::cover!(true, "reaches end");
    };
}

// @harness h15d_memcpy_ss_same_misalign tier=quick props=C15,C02
// @bounds two 24-byte 8-aligned buffers with ∀ contents; source offset 3, destination offset 3 (same misalignment: the batched path), ∀ count ≤ 21
// @domain ∀ s,d∈u8^24, ∀ count≤21: memcpy(AtomicBytes(src+3), AtomicBytes(dst+3), count)
// @claim dst[3..3+count] == src[3..3+count], every other destination byte and the whole source unchanged; every access inside the allocations and 8-aligned where AtomicU64 is used (CBMC pointer checks)
copy_case!(h15d_memcpy_ss_same_misalign, 3, 3, 21, shared_to_shared);
// @harness h15d_memcpy_ss_diff_misalign tier=quick props=C15,C02
// @bounds as above with source offset 1, destination offset 5 (different misalignment: byte-wise path), ∀ count ≤ 19
// @domain ∀ s,d∈u8^24, ∀ count≤19
// @claim as h15d_memcpy_ss_same_misalign
copy_case!(h15d_memcpy_ss_diff_misalign, 1, 5, 19, shared_to_shared);
// @harness h15d_memcpy_bs_same_misalign tier=quick props=C15,C02
// @bounds plain source bytes → shared destination; offsets 2/2, ∀ count ≤ 22
// @domain ∀ s,d∈u8^24, ∀ count≤22: memcpy(Bytes(src+2), AtomicBytes(dst+2), count)
// @claim as h15d_memcpy_ss_same_misalign
copy_case!(h15d_memcpy_bs_same_misalign, 2, 2, 22, bytes_to_shared);
// @harness h15d_memcpy_sb_same_misalign tier=quick props=C15,C02
// @bounds shared source → plain destination bytes; offsets 5/5, ∀ count ≤ 19
// @domain ∀ s,d∈u8^24, ∀ count≤19: memcpy(AtomicBytes(src+5), Bytes(dst+5), count)
// @claim as h15d_memcpy_ss_same_misalign
copy_case!(h15d_memcpy_sb_same_misalign, 5, 5, 19, shared_to_bytes);

macro_rules! move_case {
    ($name:ident, $from:expr, $to:expr, $maxc:expr, $naive:expr) => {
        #[kani::proof]
        #[kani::unwind(26)]
        fn $name() {
            let b: [u8; 24] = kani::any();
            let count: usize = kani::any();
            kani::assume(count <= $maxc);
            let from: usize = $from;
            let to: usize = $to;
            let buf = mk(&b);
            // model
            let mut want = b;
            if $naive {
                // memmove_naive: the forward byte-by-byte copy (its documented, intentionally "wrong" overlap behaviour)
                let mut i = 0;
                while i < count {
                    want[to + i] = want[from + i];
                    i += 1;
                }
                unsafe { memmove_naive(BytesMutPtr::AtomicBytes(buf.0.as_ptr()), from, to, count) };
            } else {
                let mut i = 0;
                while i < count {
                    want[to + i] = b[from + i];
                    i += 1;
                }
                unsafe { memmove(BytesMutPtr::AtomicBytes(buf.0.as_ptr()), from, to, count) };
            }
            let mut i = 0;
            while i < 24 {
                assert!(buf.0[i].load(Ordering::Relaxed) == want[i], "verif: overlapping shared-buffer move equals the byte model");
                i += 1;
            }
            kani::cover!(count >= 9, "ranges overlap and span a full chunk");
            kani::cover!(true, "reaches end");
        }
    };
}

// @harness h15d_memmove_shared_up8 tier=quick props=C15,C02
// @bounds one 24-byte 8-aligned shared buffer ∀ contents; from=0, to=8 (same misalignment, destination above source: backward batched copy), ∀ count ≤ 16
// @domain ∀ b∈u8^24, ∀ count≤16: memmove(AtomicBytes(buf), 0, 8, count)
// @claim buf[8..8+count] == old buf[0..count] (true memmove semantics on overlap), all other bytes unchanged, all accesses in bounds/aligned
move_case!(h15d_memmove_shared_up8, 0, 8, 16, false);
// @harness h15d_memmove_shared_down8 tier=quick props=C15,C02
// @bounds from=8, to=0 (destination below source: forward batched copy), ∀ count ≤ 16
// @domain ∀ b∈u8^24, ∀ count≤16: memmove(AtomicBytes(buf), 8, 0, count)
// @claim as h15d_memmove_shared_up8
move_case!(h15d_memmove_shared_down8, 8, 0, 16, false);
// @harness h15d_memmove_shared_up3 tier=quick props=C15,C02
// @bounds from=1, to=4 (different misalignment: byte-wise backward copy), ∀ count ≤ 20
// @domain ∀ b∈u8^24, ∀ count≤20: memmove(AtomicBytes(buf), 1, 4, count)
// @claim as h15d_memmove_shared_up8
move_case!(h15d_memmove_shared_up3, 1, 4, 20, false);
// @harness h15d_memmove_naive_shared_up8 tier=quick props=C15,C02
// @bounds memmove_naive on a shared buffer, from=0, to=8 (same misalignment: the batched forward copy must still behave like the byte-by-byte forward copy), ∀ count ≤ 16
// @domain ∀ b∈u8^24, ∀ count≤16: memmove_naive(AtomicBytes(buf), 0, 8, count)
// @claim the result equals the sequential forward byte copy buf[8+i] = buf[i] (the behaviour %TypedArray%.prototype.slice relies on)
move_case!(h15d_memmove_naive_shared_up8, 0, 8, 16, true);

// @harness h15d_memmove_shared_up8_off1 tier=quick props=C15,C02
// @bounds from=1, to=9 (same misalignment 1, destination 8 above the source: the backward path with a head, possibly no full chunk), ∀ count ≤ 15
// @domain ∀ b∈u8^24, ∀ count≤15: memmove(AtomicBytes(buf), 1, 9, count)
// @claim as h15d_memmove_shared_up8 (true memmove semantics when source and destination overlap by count−8 bytes)
move_case!(h15d_memmove_shared_up8_off1, 1, 9, 15, false);
// @harness h15d_memmove_shared_up8_off5 tier=quick props=C15,C02
// @bounds from=5, to=13 (same misalignment 5), ∀ count ≤ 11
// @domain ∀ b∈u8^24, ∀ count≤11: memmove(AtomicBytes(buf), 5, 13, count)
// @claim as h15d_memmove_shared_up8
move_case!(h15d_memmove_shared_up8_off5, 5, 13, 11, false);
// @harness h15d_memmove_shared_down8_off3 tier=quick props=C15,C02
// @bounds from=11, to=3 (same misalignment 3, destination below the source: forward path with head), ∀ count ≤ 13
// @domain ∀ b∈u8^24, ∀ count≤13: memmove(AtomicBytes(buf), 11, 3, count)
// @claim as h15d_memmove_shared_up8
move_case!(h15d_memmove_shared_down8_off3, 11, 3, 13, false);

// ---- thorough tier: more alignment classes (same claims as the quick-tier harness of the same family) ----
// @harness h15d_memmove_shared_up8_off2 tier=thorough props=C15,C02
// @bounds from=2, to=10, ∀ count ≤ 14
// @domain ∀ b∈u8^24, ∀ count≤14: memmove(AtomicBytes(buf), 2, 10, count)
// @claim as h15d_memmove_shared_up8
move_case!(h15d_memmove_shared_up8_off2, 2, 10, 14, false);
// @harness h15d_memmove_shared_up8_off7 tier=thorough props=C15,C02
// @bounds from=7, to=15, ∀ count ≤ 9
// @domain ∀ b∈u8^24, ∀ count≤9: memmove(AtomicBytes(buf), 7, 15, count)
// @claim as h15d_memmove_shared_up8
move_case!(h15d_memmove_shared_up8_off7, 7, 15, 9, false);
// @harness h15d_memmove_shared_up16 tier=thorough props=C15,C02
// @bounds from=0, to=16, ∀ count ≤ 8 (no overlap, same misalignment)
// @domain ∀ b∈u8^24, ∀ count≤8: memmove(AtomicBytes(buf), 0, 16, count)
// @claim as h15d_memmove_shared_up8
move_case!(h15d_memmove_shared_up16, 0, 16, 8, false);
// @harness h15d_memmove_shared_down1 tier=thorough props=C15,C02
// @bounds from=4, to=3 (different misalignment, destination one below the source), ∀ count ≤ 20
// @domain ∀ b∈u8^24, ∀ count≤20: memmove(AtomicBytes(buf), 4, 3, count)
// @claim as h15d_memmove_shared_up8
move_case!(h15d_memmove_shared_down1, 4, 3, 20, false);
// @harness h15d_memmove_naive_shared_up8_off3 tier=thorough props=C15,C02
// @bounds memmove_naive, from=3, to=11, ∀ count ≤ 13
// @domain ∀ b∈u8^24, ∀ count≤13: memmove_naive(AtomicBytes(buf), 3, 11, count)
// @claim as h15d_memmove_naive_shared_up8
move_case!(h15d_memmove_naive_shared_up8_off3, 3, 11, 13, true);
// @harness h15d_memmove_naive_shared_down8 tier=thorough props=C15,C02
// @bounds memmove_naive, from=8, to=0, ∀ count ≤ 16
// @domain ∀ b∈u8^24, ∀ count≤16: memmove_naive(AtomicBytes(buf), 8, 0, count)
// @claim as h15d_memmove_naive_shared_up8
move_case!(h15d_memmove_naive_shared_down8, 8, 0, 16, true);
// @harness h15d_memcpy_ss_aligned tier=thorough props=C15,C02
// @bounds shared→shared, offsets 0/0 (8-aligned), ∀ count ≤ 24
// @domain ∀ s,d∈u8^24, ∀ count≤24
// @claim as h15d_memcpy_ss_same_misalign
copy_case!(h15d_memcpy_ss_aligned, 0, 0, 24, shared_to_shared);
// @harness h15d_memcpy_bs_diff_misalign tier=thorough props=C15,C02
// @bounds plain→shared, offsets 4/1, ∀ count ≤ 20
// @domain ∀ s,d∈u8^24, ∀ count≤20
// @claim as h15d_memcpy_ss_same_misalign
copy_case!(h15d_memcpy_bs_diff_misalign, 4, 1, 20, bytes_to_shared);
// @harness h15d_memcpy_sb_off7 tier=thorough props=C15,C02
// @bounds shared→plain, offsets 7/7, ∀ count ≤ 17
// @domain ∀ s,d∈u8^24, ∀ count≤17
// @claim as h15d_memcpy_ss_same_misalign
copy_case!(h15d_memcpy_sb_off7, 7, 7, 17, shared_to_bytes);
