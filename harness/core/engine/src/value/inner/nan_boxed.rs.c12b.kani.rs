// C12 — NaN-boxing bit layer: the kind predicates partition the 2^64 raw patterns, float tagging is
// canonicalising, pointer tagging round-trips 48-bit addresses and refuses wider ones.
use super::*;
use std::ptr::NonNull;

// @harness h12b_kind_partition tier=quick props=C12
// @bounds none: all 2^64 raw patterns
// @domain ∀ r∈u64 (raw inner value)
// @claim exactly one of {float, int32, bool-kind, other-kind, object, string, symbol, bigint} holds; the predicates agree with the documented tag table (bits 62..48); is_negative_zero only for 0x8000…0
#[kani::proof]
fn h12b_kind_partition() {
    let r: u64 = kani::any();
    let other = r & bits::MASK_KIND == bits::MASK_OTHER;
    let ps = [
        bits::is_float(r),
        bits::is_integer32(r),
        bits::is_bool(r),
        other,
        bits::is_object(r),
        bits::is_string(r),
        bits::is_symbol(r),
        bits::is_bigint(r),
    ];
    let mut n = 0u32;
    let mut i = 0;
    while i < 8 {
        if ps[i] {
            n += 1;
        }
        i += 1;
    }
    assert!(n <= 1, "verif: kind predicates are mutually exclusive");
    // documented table: exponent all ones and tag nibble (bits 51..48) selects the kind; the sign
    // bit is ignored (MASK_KIND = 0x7FFF_0000_0000_0000).  Nibbles 1..=7 with an all-ones exponent
    // (signalling-NaN payloads) are *unused* patterns: no predicate claims them, and h12b_tag_f64
    // shows no constructor produces them.
    let expo_ones = (r >> 52) & 0x7FF == 0x7FF;
    let nib = (r >> 48) & 0xF;
    let model: usize = if !expo_ones || nib == 0x0 || nib == 0x8 {
        0
    } else {
        match nib {
            0x9 => 1,
            0xA => 2,
            0xB => 3,
            0xC => 4,
            0xD => 5,
            0xE => 6,
            0xF => 7,
            _ => 8, // unused
        }
    };
    if model == 8 {
        assert!(n == 0, "verif: unused NaN patterns belong to no kind");
    } else {
        assert!(n == 1 && ps[model], "verif: kind predicate matches the documented tag table");
    }
    assert!(bits::is_negative_zero(r) == (r == 0x8000_0000_0000_0000), "verif: is_negative_zero is exact");
    kani::cover!(model == 8, "unused signalling-NaN pattern");
    kani::cover!(model == 4, "object kind");
    kani::cover!(true, "reaches end");
}

// @harness h12b_tag_f64 tier=quick props=C12
// @bounds none: all 2^64 bit patterns
// @domain ∀ b∈u64: t = tag_f64(f64::from_bits(b))
// @claim is_float(t) and no other kind; t == b unless b is a NaN, then t == 0x7FF8_0000_0000_0000; float64(f).value() == t
#[kani::proof]
fn h12b_tag_f64() {
    let b: u64 = kani::any();
    let t = bits::tag_f64(f64::from_bits(b));
    assert!(bits::is_float(t), "verif: tag_f64 always yields a float kind");
    assert!(
        !bits::is_integer32(t) && !bits::is_bool(t) && !bits::is_object(t) && !bits::is_string(t)
            && !bits::is_symbol(t) && !bits::is_bigint(t) && (t & bits::MASK_KIND != bits::MASK_OTHER),
        "verif: a tagged float is no other kind"
    );
    let nan = (b & 0x7FF0_0000_0000_0000) == 0x7FF0_0000_0000_0000 && (b & 0x000F_FFFF_FFFF_FFFF) != 0;
    if nan {
        assert!(t == 0x7FF8_0000_0000_0000, "verif: every NaN is canonicalised");
    } else {
        assert!(t == b, "verif: non-NaN floats are stored verbatim");
    }
    let v = NanBoxedValue::float64(f64::from_bits(b));
    assert!(v.value() == t, "verif: float64() stores tag_f64()");
    kani::cover!(nan && (b >> 48) & 0xF == 0xC, "NaN with object tag nibble");
    kani::cover!(true, "reaches end");
    std::mem::forget(v);
}

// @harness h12b_tag_small tier=quick props=C12
// @bounds none
// @domain ∀ i∈i32, ∀ b∈bool
// @claim untag_i32(tag_i32(i))==i ∧ only is_integer32; untag_bool(tag_bool(b))==b ∧ only is_bool; the 4 constants null/undefined/true/false are distinct and of the right kind; inner constructors store exactly these tags
#[kani::proof]
fn h12b_tag_small() {
    let i: i32 = kani::any();
    let t = bits::tag_i32(i);
    assert!(bits::is_integer32(t) && !bits::is_float(t) && !bits::is_bool(t), "verif: tag_i32 kind");
    assert!(bits::untag_i32(t) == i, "verif: i32 tag round trip");
    assert!(t >> 32 == 0x7FF9_0000, "verif: int32 upper half is the pure tag");
    let b: bool = kani::any();
    let tb = bits::tag_bool(b);
    assert!(bits::is_bool(tb) && !bits::is_float(tb) && !bits::is_integer32(tb), "verif: tag_bool kind");
    assert!(bits::untag_bool(tb) == b, "verif: bool tag round trip");
    assert!(tb == if b { bits::VALUE_TRUE } else { bits::VALUE_FALSE }, "verif: bool constants");
    assert!(bits::VALUE_NULL != bits::VALUE_UNDEFINED, "verif: null != undefined");
    assert!(!bits::is_float(bits::VALUE_NULL) && !bits::is_float(bits::VALUE_UNDEFINED), "verif: null/undefined are not floats");
    let v = NanBoxedValue::integer32(i);
    assert!(v.value() == t, "verif: integer32() stores tag_i32()");
    let n = NanBoxedValue::null();
    let u = NanBoxedValue::undefined();
    assert!(n.is_null() && !n.is_undefined() && u.is_undefined() && !u.is_null(), "verif: null/undefined inner");
    assert!(n.is_null_or_undefined() && u.is_null_or_undefined(), "verif: nullish inner");
    kani::cover!(i < 0, "negative int");
    kani::cover!(true, "reaches end");
    std::mem::forget(v);
}

fn ptr_mask(k: u8) -> u64 {
    match k {
        0 => bits::MASK_OBJECT,
        1 => bits::MASK_STRING,
        2 => bits::MASK_SYMBOL,
        _ => bits::MASK_BIGINT,
    }
}

// @harness h12b_tag_pointer tier=quick props=C12
// @bounds none: all non-null addresses below 2^48 × the 4 pointer tags
// @domain ∀ p∈[1,2^48), ∀ k∈{object,string,symbol,bigint}
// @claim untag_pointer(tag_pointer(p,k))==p; exactly the matching is_* predicate holds; never a float/int/bool/other kind
#[kani::proof]
fn h12b_tag_pointer() {
    let p: usize = kani::any();
    kani::assume(p != 0 && (p as u64) < (1u64 << 48));
    let k: u8 = kani::any();
    kani::assume(k < 4);
    let nn: NonNull<u8> = NonNull::new(std::ptr::without_provenance_mut::<u8>(p)).unwrap();
    let t = bits::tag_pointer(nn, ptr_mask(k));
    assert!(bits::untag_pointer(t) == p, "verif: pointer tag round trip");
    assert!(bits::is_object(t) == (k == 0), "verif: object tag exclusive");
    assert!(bits::is_string(t) == (k == 1), "verif: string tag exclusive");
    assert!(bits::is_symbol(t) == (k == 2), "verif: symbol tag exclusive");
    assert!(bits::is_bigint(t) == (k == 3), "verif: bigint tag exclusive");
    assert!(!bits::is_float(t) && !bits::is_integer32(t) && !bits::is_bool(t), "verif: pointer is no primitive kind");
    assert!(t & bits::MASK_KIND != bits::MASK_OTHER, "verif: pointer is not null/undefined kind");
    kani::cover!(p == (1usize << 48) - 1, "largest 48-bit address");
    kani::cover!(true, "reaches end");
}

// @harness h12b_tag_pointer_wide_panics tier=quick props=C12
// @bounds none: all addresses ≥ 2^48 × 4 tags
// @domain ∀ p ≥ 2^48, ∀ k
// @claim tag_pointer panics (never silently truncates an address that does not fit)
#[kani::proof]
#[kani::should_panic]
fn h12b_tag_pointer_wide_panics() {
    let p: usize = kani::any();
    kani::assume((p as u64) >= (1u64 << 48));
    let k: u8 = kani::any();
    kani::assume(k < 4);
    let nn: NonNull<u8> = NonNull::new(std::ptr::without_provenance_mut::<u8>(p)).unwrap();
    let _t = bits::tag_pointer(nn, ptr_mask(k));
}
