// C01 — general (slow-path / constant-folder) unary minus on Numbers.
use super::*;
use crate::verif_kani_lib_model as vm;
use std::mem::{MaybeUninit, forget};

fn noop() {}
fn placeholder_ctx() -> &'static mut Context {
    let b: &'static mut MaybeUninit<Context> = Box::leak(Box::new(MaybeUninit::uninit()));
    // SAFETY: never read (only forwarded to stubbed coercions)
    unsafe { &mut *b.as_mut_ptr() }
}
fn stub_to_numeric_number(_v: &JsValue, _c: &mut Context) -> JsResult<f64> {
    panic!("verif: coercion stub reached with a Number operand")
}

// @harness h01c_neg tier=quick props=C01,C02
// @bounds none: ∀ int32 ∪ ∀ 2^64 double bit patterns
// @domain ∀ Number x: JsValue::neg(x) (the operator the constant folder and embedders call)
// @claim never panics (in particular for Integer32(i32::MIN)); the result is a Number SameValue to IEEE −x: −(0) is −0, −(i32::MIN) is 2147483648, NaN stays NaN
// @stubs std::rt::thread_cleanup→{}; JsValue::to_numeric_number→unreachable (only object operands use it)
#[kani::proof]
#[kani::stub(std::rt::thread_cleanup, noop)]
#[kani::stub(JsValue::to_numeric_number, stub_to_numeric_number)]
fn h01c_neg() {
    let is_int: bool = kani::any();
    let i: i32 = kani::any();
    let b: u64 = kani::any();
    let v = if is_int { JsValue::new(i) } else { JsValue::new(f64::from_bits(b)) };
    let ctx = placeholder_ctx();
    let r = match v.neg(ctx) {
        Ok(r) => r,
        Err(e) => {
            forget(e);
            panic!("verif: negating a Number must not throw")
        }
    };
    let want = if is_int { -(f64::from(i)) } else { -(f64::from_bits(b)) };
    let got = if let Some(k) = r.0.as_integer32() {
        f64::from(k)
    } else if let Some(f) = r.0.as_float64() {
        f
    } else {
        panic!("verif: -Number is a Number")
    };
    assert!(vm::same_value_bits(got.to_bits(), want.to_bits()), "verif: unary minus is IEEE negation (−0 and i32::MIN included)");
    kani::cover!(is_int && i == i32::MIN, "-(i32::MIN)");
    kani::cover!(is_int && i == 0, "-(0) is -0");
    kani::cover!(!is_int && vm::is_nan_bits(b), "NaN");
    kani::cover!(true, "reaches end");
    forget(v);
    forget(r);
}
