// C01 — strict equality, SameValue and SameValueZero on Numbers (the Context-free parts of equality.rs)
// against integer models of the IEEE relations.  One relation per harness (each uses variant() twice: DESIGN 9.1).
use super::*;
use crate::verif_kani_lib_model as vm;
use std::mem::forget;

fn noop() {}

fn int_number() -> (JsValue, u64) {
    let i: i32 = kani::any();
    (JsValue::new(i), f64::from(i).to_bits())
}
fn float_number() -> (JsValue, u64) {
    let b: u64 = kani::any();
    (JsValue::new(f64::from_bits(b)), b)
}

macro_rules! relation {
    ($name:ident, $mkx:ident, $mky:ident, $call:expr, $model:expr, $msg:literal) => {
        #[kani::proof]
        #[kani::stub(std::rt::thread_cleanup, noop)]
        fn $name() {
            let (x, xb) = $mkx();
            let (y, yb) = $mky();
            let call = $call;
            let model = $model;
            let got: bool = call(&x, &y);
            let want: bool = model(xb, yb);
            assert!(got == want, $msg);
            kani::cover!(got, "relation holds");
            kani::cover!(!got, "relation fails");
            kani::cover!(true, "reaches end");
            forget(x);
            forget(y);
        }
    };
}

// @harness h01f_strict_equals_ii tier=quick props=C01,C02
// @bounds none: ∀ Integer32 × Integer32 (representation pair fixed per harness: a symbolic pair keeps every heap-type arm alive)
// @domain ∀ x,y: strict_equals
// @claim ≡ IEEE equality (NaN ≠ NaN, +0 = −0, Integer32(5) = Float64(5.0)); model = integer comparison of the IEEE bit patterns
// @stubs std::rt::thread_cleanup→{}
relation!(h01f_strict_equals_ii, int_number, int_number, |a: &JsValue, b: &JsValue| a.strict_equals(b), |a: u64, b: u64| vm::eq_bits(a, b), "verif: === on Numbers is IEEE equality");
// @harness h01f_strict_equals_if tier=quick props=C01,C02
// @bounds none: ∀ Integer32 × Float64 (representation pair fixed per harness: a symbolic pair keeps every heap-type arm alive)
// @domain ∀ x,y: strict_equals
// @claim ≡ IEEE equality (NaN ≠ NaN, +0 = −0, Integer32(5) = Float64(5.0)); model = integer comparison of the IEEE bit patterns
// @stubs std::rt::thread_cleanup→{}
relation!(h01f_strict_equals_if, int_number, float_number, |a: &JsValue, b: &JsValue| a.strict_equals(b), |a: u64, b: u64| vm::eq_bits(a, b), "verif: === on Numbers is IEEE equality");
// @harness h01f_strict_equals_fi tier=quick props=C01,C02
// @bounds none: ∀ Float64 × Integer32 (representation pair fixed per harness: a symbolic pair keeps every heap-type arm alive)
// @domain ∀ x,y: strict_equals
// @claim ≡ IEEE equality (NaN ≠ NaN, +0 = −0, Integer32(5) = Float64(5.0)); model = integer comparison of the IEEE bit patterns
// @stubs std::rt::thread_cleanup→{}
relation!(h01f_strict_equals_fi, float_number, int_number, |a: &JsValue, b: &JsValue| a.strict_equals(b), |a: u64, b: u64| vm::eq_bits(a, b), "verif: === on Numbers is IEEE equality");
// @harness h01f_strict_equals_ff tier=quick props=C01,C02
// @bounds none: ∀ Float64 × Float64 (representation pair fixed per harness: a symbolic pair keeps every heap-type arm alive)
// @domain ∀ x,y: strict_equals
// @claim ≡ IEEE equality (NaN ≠ NaN, +0 = −0, Integer32(5) = Float64(5.0)); model = integer comparison of the IEEE bit patterns
// @stubs std::rt::thread_cleanup→{}
relation!(h01f_strict_equals_ff, float_number, float_number, |a: &JsValue, b: &JsValue| a.strict_equals(b), |a: u64, b: u64| vm::eq_bits(a, b), "verif: === on Numbers is IEEE equality");
// @harness h01f_same_value_ii tier=quick props=C01,C02
// @bounds none: ∀ Integer32 × Integer32 (representation pair fixed per harness: a symbolic pair keeps every heap-type arm alive)
// @domain ∀ x,y: same_value
// @claim ≡ SameValue: NaN is NaN, +0 ≠ −0, otherwise numeric equality (Integer32(0) is +0); model = integer comparison of the IEEE bit patterns
// @stubs std::rt::thread_cleanup→{}
relation!(h01f_same_value_ii, int_number, int_number, |a: &JsValue, b: &JsValue| JsValue::same_value(a, b), |a: u64, b: u64| vm::same_value_bits(a, b), "verif: SameValue on Numbers");
// @harness h01f_same_value_if tier=quick props=C01,C02
// @bounds none: ∀ Integer32 × Float64 (representation pair fixed per harness: a symbolic pair keeps every heap-type arm alive)
// @domain ∀ x,y: same_value
// @claim ≡ SameValue: NaN is NaN, +0 ≠ −0, otherwise numeric equality (Integer32(0) is +0); model = integer comparison of the IEEE bit patterns
// @stubs std::rt::thread_cleanup→{}
relation!(h01f_same_value_if, int_number, float_number, |a: &JsValue, b: &JsValue| JsValue::same_value(a, b), |a: u64, b: u64| vm::same_value_bits(a, b), "verif: SameValue on Numbers");
// @harness h01f_same_value_fi tier=quick props=C01,C02
// @bounds none: ∀ Float64 × Integer32 (representation pair fixed per harness: a symbolic pair keeps every heap-type arm alive)
// @domain ∀ x,y: same_value
// @claim ≡ SameValue: NaN is NaN, +0 ≠ −0, otherwise numeric equality (Integer32(0) is +0); model = integer comparison of the IEEE bit patterns
// @stubs std::rt::thread_cleanup→{}
relation!(h01f_same_value_fi, float_number, int_number, |a: &JsValue, b: &JsValue| JsValue::same_value(a, b), |a: u64, b: u64| vm::same_value_bits(a, b), "verif: SameValue on Numbers");
// @harness h01f_same_value_ff tier=quick props=C01,C02
// @bounds none: ∀ Float64 × Float64 (representation pair fixed per harness: a symbolic pair keeps every heap-type arm alive)
// @domain ∀ x,y: same_value
// @claim ≡ SameValue: NaN is NaN, +0 ≠ −0, otherwise numeric equality (Integer32(0) is +0); model = integer comparison of the IEEE bit patterns
// @stubs std::rt::thread_cleanup→{}
relation!(h01f_same_value_ff, float_number, float_number, |a: &JsValue, b: &JsValue| JsValue::same_value(a, b), |a: u64, b: u64| vm::same_value_bits(a, b), "verif: SameValue on Numbers");
// @harness h01f_same_value_zero_ii tier=quick props=C01,C02
// @bounds none: ∀ Integer32 × Integer32 (representation pair fixed per harness: a symbolic pair keeps every heap-type arm alive)
// @domain ∀ x,y: same_value_zero
// @claim ≡ SameValueZero: NaN is NaN, +0 = −0, otherwise numeric equality; model = integer comparison of the IEEE bit patterns
// @stubs std::rt::thread_cleanup→{}
relation!(h01f_same_value_zero_ii, int_number, int_number, |a: &JsValue, b: &JsValue| JsValue::same_value_zero(a, b), |a: u64, b: u64| (vm::is_nan_bits(a) && vm::is_nan_bits(b)) || vm::eq_bits(a, b), "verif: SameValueZero on Numbers");
// @harness h01f_same_value_zero_if tier=quick props=C01,C02
// @bounds none: ∀ Integer32 × Float64 (representation pair fixed per harness: a symbolic pair keeps every heap-type arm alive)
// @domain ∀ x,y: same_value_zero
// @claim ≡ SameValueZero: NaN is NaN, +0 = −0, otherwise numeric equality; model = integer comparison of the IEEE bit patterns
// @stubs std::rt::thread_cleanup→{}
relation!(h01f_same_value_zero_if, int_number, float_number, |a: &JsValue, b: &JsValue| JsValue::same_value_zero(a, b), |a: u64, b: u64| (vm::is_nan_bits(a) && vm::is_nan_bits(b)) || vm::eq_bits(a, b), "verif: SameValueZero on Numbers");
// @harness h01f_same_value_zero_fi tier=quick props=C01,C02
// @bounds none: ∀ Float64 × Integer32 (representation pair fixed per harness: a symbolic pair keeps every heap-type arm alive)
// @domain ∀ x,y: same_value_zero
// @claim ≡ SameValueZero: NaN is NaN, +0 = −0, otherwise numeric equality; model = integer comparison of the IEEE bit patterns
// @stubs std::rt::thread_cleanup→{}
relation!(h01f_same_value_zero_fi, float_number, int_number, |a: &JsValue, b: &JsValue| JsValue::same_value_zero(a, b), |a: u64, b: u64| (vm::is_nan_bits(a) && vm::is_nan_bits(b)) || vm::eq_bits(a, b), "verif: SameValueZero on Numbers");
// @harness h01f_same_value_zero_ff tier=quick props=C01,C02
// @bounds none: ∀ Float64 × Float64 (representation pair fixed per harness: a symbolic pair keeps every heap-type arm alive)
// @domain ∀ x,y: same_value_zero
// @claim ≡ SameValueZero: NaN is NaN, +0 = −0, otherwise numeric equality; model = integer comparison of the IEEE bit patterns
// @stubs std::rt::thread_cleanup→{}
relation!(h01f_same_value_zero_ff, float_number, float_number, |a: &JsValue, b: &JsValue| JsValue::same_value_zero(a, b), |a: u64, b: u64| (vm::is_nan_bits(a) && vm::is_nan_bits(b)) || vm::eq_bits(a, b), "verif: SameValueZero on Numbers");
