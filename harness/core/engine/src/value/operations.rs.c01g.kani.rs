// C01 — the GENERAL operator methods (used by the VM slow path and by the optimizer's constant folder) on
// Number operands, in the jsvalue-enum configuration (DESIGN 9.1).  The coercions are stubbed to fail the
// harness if ever reached: on Numbers the operators must not coerce.
use super::*;
use crate::verif_kani_lib_model as vm;
use std::mem::{MaybeUninit, forget};

fn noop() {}
fn placeholder_ctx() -> &'static mut Context {
    let b: &'static mut MaybeUninit<Context> = Box::leak(Box::new(MaybeUninit::uninit()));
    // SAFETY: never read (only forwarded to stubbed coercions)
    unsafe { &mut *b.as_mut_ptr() }
}
fn stub_to_primitive(_v: &JsValue, _c: &mut Context, _p: PreferredType) -> JsResult<JsValue> {
    panic!("verif: to_primitive reached with Number operands")
}
fn stub_to_numeric(_v: &JsValue, _c: &mut Context) -> JsResult<Numeric> {
    panic!("verif: to_numeric reached with Number operands")
}
fn stub_to_string(_v: &JsValue, _c: &mut Context) -> JsResult<crate::JsString> {
    panic!("verif: to_string reached with Number operands")
}

fn ints() -> (i32, i32, JsValue, JsValue) {
    let x: i32 = kani::any();
    let y: i32 = kani::any();
    (x, y, JsValue::new(x), JsValue::new(y))
}
fn num(v: &JsValue) -> (bool, i32, u64) {
    crate::value::verif_kani_mod_pubhelp::read_number(v).expect("verif: numeric operator returned a non-Number")
}
fn fits(e: i64) -> bool {
    e >= i32::MIN as i64 && e <= i32::MAX as i64
}

// @harness h01g_add_sub_general tier=quick props=C01,C02
// @bounds none: ∀ int32 × int32 (jsvalue-enum configuration)
// @domain ∀ x,y∈i32: JsValue::add / JsValue::sub (general methods) on Integer32 operands
// @claim Ok; Integer32(exact) iff the exact i64 result fits, else the double sum/difference; no coercion is attempted; never panics
// @stubs std::rt::thread_cleanup→{}; JsValue::to_primitive/to_numeric/to_string→unreachable
#[kani::proof]
#[kani::stub(std::rt::thread_cleanup, noop)]
#[kani::stub(JsValue::to_primitive, stub_to_primitive)]
#[kani::stub(JsValue::to_numeric, stub_to_numeric)]
#[kani::stub(JsValue::to_string, stub_to_string)]
fn h01g_add_sub_general() {
    let (x, y, a, b) = ints();
    let ctx = placeholder_ctx();
    let s = match a.add(&b, ctx) {
        Ok(v) => v,
        Err(e) => {
            forget(e);
            panic!("verif: Number + Number must not throw")
        }
    };
    let e = x as i64 + y as i64;
    let (is_int, iv, fb) = num(&s);
    if is_int {
        assert!(fits(e) && iv as i64 == e, "verif: general + on int32 exact when it fits");
    } else {
        assert!(!fits(e) && fb == (f64::from(x) + f64::from(y)).to_bits(), "verif: general + overflow is the double sum");
    }
    let d = match a.sub(&b, ctx) {
        Ok(v) => v,
        Err(e) => {
            forget(e);
            panic!("verif: Number - Number must not throw")
        }
    };
    let e2 = x as i64 - y as i64;
    let (is_int2, iv2, fb2) = num(&d);
    if is_int2 {
        assert!(fits(e2) && iv2 as i64 == e2, "verif: general - on int32 exact when it fits");
    } else {
        assert!(!fits(e2) && fb2 == (f64::from(x) - f64::from(y)).to_bits(), "verif: general - overflow is the double difference");
    }
    kani::cover!(!fits(e), "addition overflows");
    kani::cover!(true, "reaches end");
    forget(a);
    forget(b);
    forget(s);
    forget(d);
}

// @harness h01g_rem_div_total_general tier=quick props=C01,C02
// @bounds none: ∀ int32 × int32 (jsvalue-enum configuration)
// @domain ∀ x,y∈i32: JsValue::rem / JsValue::div (general methods)
// @claim never panic (i32::MIN % −1, / 0, % 0); x % 0 is NaN; i32::MIN % −1 is −0; 0 / negative is −0
// @stubs std::rt::thread_cleanup→{}; JsValue::to_primitive/to_numeric/to_string→unreachable
#[kani::proof]
#[kani::stub(std::rt::thread_cleanup, noop)]
#[kani::stub(JsValue::to_primitive, stub_to_primitive)]
#[kani::stub(JsValue::to_numeric, stub_to_numeric)]
#[kani::stub(JsValue::to_string, stub_to_string)]
fn h01g_rem_div_total_general() {
    let (x, y, a, b) = ints();
    let ctx = placeholder_ctx();
    let r = match a.rem(&b, ctx) {
        Ok(v) => v,
        Err(e) => {
            forget(e);
            panic!("verif: Number % Number must not throw")
        }
    };
    let (is_int, _iv, fb) = num(&r);
    if y == 0 {
        assert!(!is_int && vm::is_nan_bits(fb), "verif: general x % 0 is NaN");
    }
    if x == i32::MIN && y == -1 {
        assert!(!is_int && fb == 0x8000_0000_0000_0000, "verif: general i32::MIN % -1 is -0");
    }
    let q = match a.div(&b, ctx) {
        Ok(v) => v,
        Err(e) => {
            forget(e);
            panic!("verif: Number / Number must not throw")
        }
    };
    let (q_int, _qv, qb) = num(&q);
    if x == 0 && y < 0 {
        assert!(!q_int && qb == 0x8000_0000_0000_0000, "verif: general 0 / negative is -0");
    }
    kani::cover!(x == i32::MIN && y == -1, "i32::MIN op -1");
    kani::cover!(y == 0, "zero divisor");
    kani::cover!(true, "reaches end");
    forget(a);
    forget(b);
    forget(r);
    forget(q);
}

macro_rules! ok {
    ($e:expr, $msg:literal) => {
        match $e {
            Ok(v) => v,
            Err(e) => {
                forget(e);
                panic!($msg)
            }
        }
    };
}

// @harness h01g_bitwise_shift_general tier=quick props=C01,C02
// @bounds none: ∀ int32 × int32 (jsvalue-enum configuration)
// @domain ∀ x,y∈i32: JsValue::{bitand,bitor,bitxor,shl,shr,ushr} (general methods)
// @claim ≡ &,|,^ ; << and >> with the count taken mod 32 (ToUint32(count) & 31, negative counts included); >>> on the unsigned image, a Number above i32::MAX when needed; no coercion attempted; never panics
// @stubs std::rt::thread_cleanup→{}; JsValue::to_primitive/to_numeric/to_string→unreachable
#[kani::proof]
#[kani::stub(std::rt::thread_cleanup, noop)]
#[kani::stub(JsValue::to_primitive, stub_to_primitive)]
#[kani::stub(JsValue::to_numeric, stub_to_numeric)]
#[kani::stub(JsValue::to_string, stub_to_string)]
fn h01g_bitwise_shift_general() {
    let (x, y, a, b) = ints();
    let ctx = placeholder_ctx();
    let sh = (y as u32) & 31;
    let r1 = ok!(a.bitand(&b, ctx), "verif: & must not throw");
    let r2 = ok!(a.bitor(&b, ctx), "verif: | must not throw");
    let r3 = ok!(a.bitxor(&b, ctx), "verif: ^ must not throw");
    assert!(num(&r1) == (true, x & y, 0) && num(&r2) == (true, x | y, 0) && num(&r3) == (true, x ^ y, 0), "verif: general bitwise operators");
    let r4 = ok!(a.shl(&b, ctx), "verif: << must not throw");
    let r5 = ok!(a.shr(&b, ctx), "verif: >> must not throw");
    assert!(num(&r4) == (true, (((x as u32 as u64) << sh) & 0xFFFF_FFFF) as u32 as i32, 0), "verif: general <<");
    assert!(num(&r5) == (true, ((x as i64) >> sh) as i32, 0), "verif: general >>");
    let r6 = ok!(a.ushr(&b, ctx), "verif: >>> must not throw");
    let want_u = (x as u32 as u64) >> sh;
    let (u_int, u_iv, u_fb) = num(&r6);
    if u_int {
        assert!(want_u <= i32::MAX as u64 && u_iv as u64 == want_u, "verif: general >>> small");
    } else {
        assert!(want_u > i32::MAX as u64 && u_fb == vm::i64_to_f64_bits_exact(want_u as i64), "verif: general >>> large is exact");
    }
    kani::cover!(y < 0, "negative shift count");
    kani::cover!(y >= 32, "shift count ≥ 32");
    kani::cover!(true, "reaches end");
    forget(a);
    forget(b);
    forget(r1);
    forget(r2);
    forget(r3);
    forget(r4);
    forget(r5);
    forget(r6);
}

// @harness h01g_compare_general tier=quick props=C01,C02
// @bounds none: ∀ (int32 ∪ double) × double (jsvalue-enum configuration)
// @domain ∀ x∈i32 ∪ f64 bits, ∀ y∈f64 bits: JsValue::{lt,le,gt,ge} (general methods through abstract_relation, both operand orders)
// @claim ≡ IEEE <,≤,>,≥ with every comparison involving NaN false (integer comparison of the bit patterns as model); no coercion attempted
// @stubs std::rt::thread_cleanup→{}; JsValue::to_primitive/to_numeric/to_string→unreachable
#[kani::proof]
#[kani::stub(std::rt::thread_cleanup, noop)]
#[kani::stub(JsValue::to_primitive, stub_to_primitive)]
#[kani::stub(JsValue::to_numeric, stub_to_numeric)]
#[kani::stub(JsValue::to_string, stub_to_string)]
fn h01g_compare_general() {
    let xi: i32 = kani::any();
    let xf: u64 = kani::any();
    let x_is_int: bool = kani::any();
    let yb: u64 = kani::any();
    let (a, xb) = if x_is_int { (JsValue::new(xi), f64::from(xi).to_bits()) } else { (JsValue::new(f64::from_bits(xf)), xf) };
    let b = JsValue::new(f64::from_bits(yb));
    let ctx = placeholder_ctx();
    let nan = vm::is_nan_bits(xb) || vm::is_nan_bits(yb);
    assert!(ok!(a.lt(&b, ctx), "verif: < must not throw") == vm::lt_bits(xb, yb), "verif: general x < y");
    assert!(ok!(b.lt(&a, ctx), "verif: < must not throw") == vm::lt_bits(yb, xb), "verif: general y < x");
    assert!(ok!(a.gt(&b, ctx), "verif: > must not throw") == vm::lt_bits(yb, xb), "verif: general x > y");
    assert!(ok!(a.le(&b, ctx), "verif: <= must not throw") == (!nan && !vm::lt_bits(yb, xb)), "verif: general x <= y");
    assert!(ok!(a.ge(&b, ctx), "verif: >= must not throw") == (!nan && !vm::lt_bits(xb, yb)), "verif: general x >= y");
    assert!(ok!(b.le(&a, ctx), "verif: <= must not throw") == (!nan && !vm::lt_bits(xb, yb)), "verif: general y <= x");
    kani::cover!(nan, "NaN operand");
    kani::cover!(xb == 0 && yb == 0x8000_0000_0000_0000, "+0 vs -0");
    kani::cover!(true, "reaches end");
    forget(a);
    forget(b);
}

// @harness h01g_mul_special_general tier=quick props=C01,C02
// @bounds ∀ int32 x; multiplier ∈ {0, −1, i32::MIN} (enumerated), both operand orders (jsvalue-enum configuration)
// @domain ∀ x∈i32; y ∈ {0,−1,MIN}: JsValue::mul (general method)
// @claim Integer32(exact) iff the exact product fits and is not a −0 case; 0·negative is exactly −0; otherwise a double; never panics
// @stubs std::rt::thread_cleanup→{}; JsValue::to_primitive/to_numeric/to_string→unreachable
#[kani::proof]
#[kani::stub(std::rt::thread_cleanup, noop)]
#[kani::stub(JsValue::to_primitive, stub_to_primitive)]
#[kani::stub(JsValue::to_numeric, stub_to_numeric)]
#[kani::stub(JsValue::to_string, stub_to_string)]
fn h01g_mul_special_general() {
    let x: i32 = kani::any();
    let a = JsValue::new(x);
    let ctx = placeholder_ctx();
    let ys = [0i32, -1, i32::MIN];
    let mut k = 0;
    while k < 3 {
        let y = ys[k];
        let b = JsValue::new(y);
        let e = x as i64 * y as i64;
        let neg_zero = e == 0 && (x < 0 || y < 0);
        let p1 = ok!(a.mul(&b, ctx), "verif: * must not throw");
        let p2 = ok!(b.mul(&a, ctx), "verif: * must not throw");
        let rs = [num(&p1), num(&p2)];
        let mut j = 0;
        while j < 2 {
            let (is_int, iv, fb) = rs[j];
            if is_int {
                assert!(fits(e) && !neg_zero && iv as i64 == e, "verif: general * exact when it fits and is not -0");
            } else {
                assert!(!fits(e) || neg_zero, "verif: general * leaves the int path only on overflow or -0");
                if neg_zero {
                    assert!(fb == 0x8000_0000_0000_0000, "verif: general 0 * negative is -0");
                }
            }
            j += 1;
        }
        forget(b);
        forget(p1);
        forget(p2);
        k += 1;
    }
    kani::cover!(x < 0, "negative multiplicand");
    kani::cover!(true, "reaches end");
    forget(a);
}
