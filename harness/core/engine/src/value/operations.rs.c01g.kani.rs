// C01 — the GENERAL operator methods (used by the VM slow path and by the optimizer's constant folder) on
// Number operands, in the jsvalue-enum configuration (DESIGN 9.1).  The coercions are stubbed to fail the
// harness if ever reached: on Numbers the operators must not coerce.
use super::*;
use crate::verif_kani_lib_model as vm;
use std::mem::{MaybeUninit, forget};

fn noop() {}
fn placeholder_ctx() -> &'static mut Context {
    let b: &'static mut MaybeUninit<Context> = Box::leak(Box::new(MaybeUninit::uninit()));
    // SAFETY: never read (only forwarded to stubbed coercions)
    unsafe { &mut *b.as_mut_ptr() }
}
fn stub_to_primitive(_v: &JsValue, _c: &mut Context, _p: PreferredType) -> JsResult<JsValue> {
    panic!("verif: to_primitive reached with Number operands")
}
fn stub_to_numeric(_v: &JsValue, _c: &mut Context) -> JsResult<Numeric> {
    panic!("verif: to_numeric reached with Number operands")
}
fn stub_to_string(_v: &JsValue, _c: &mut Context) -> JsResult<crate::JsString> {
    panic!("verif: to_string reached with Number operands")
}

fn ints() -> (i32, i32, JsValue, JsValue) {
    let x: i32 = kani::any();
    let y: i32 = kani::any();
    (x, y, JsValue::new(x), JsValue::new(y))
}
fn num(v: &JsValue) -> (bool, i32, u64) {
    crate::value::verif_kani_mod_pubhelp::read_number(v).expect("verif: numeric operator returned a non-Number")
}
fn fits(e: i64) -> bool {
    e >= i32::MIN as i64 && e <= i32::MAX as i64
}

// @harness h01g_add_sub_general tier=quick props=C01,C02
// @bounds none: ∀ int32 × int32 (jsvalue-enum configuration)
// @domain ∀ x,y∈i32: JsValue::add / JsValue::sub (general methods) on Integer32 operands
// @claim Ok; Integer32(exact) iff the exact i64 result fits, else the double sum/difference; no coercion is attempted; never panics
// @stubs std::rt::thread_cleanup→{}; JsValue::to_primitive/to_numeric/to_string→unreachable
#[kani::proof]
#[kani::stub(std::rt::thread_cleanup, noop)]
#[kani::stub(JsValue::to_primitive, stub_to_primitive)]
#[kani::stub(JsValue::to_numeric, stub_to_numeric)]
#[kani::stub(JsValue::to_string, stub_to_string)]
fn h01g_add_sub_general() {
    let (x, y, a, b) = ints();
    let ctx = placeholder_ctx();
    let s = match a.add(&b, ctx) {
        Ok(v) => v,
        Err(e) => {
            forget(e);
            panic!("verif: Number + Number must not throw")
        }
    };
    let e = x as i64 + y as i64;
    let (is_int, iv, fb) = num(&s);
    if is_int {
        assert!(fits(e) && iv as i64 == e, "verif: general + on int32 exact when it fits");
    } else {
        assert!(!fits(e) && fb == (f64::from(x) + f64::from(y)).to_bits(), "verif: general + overflow is the double sum");
    }
    let d = match a.sub(&b, ctx) {
        Ok(v) => v,
        Err(e) => {
            forget(e);
            panic!("verif: Number - Number must not throw")
        }
    };
    let e2 = x as i64 - y as i64;
    let (is_int2, iv2, fb2) = num(&d);
    if is_int2 {
        assert!(fits(e2) && iv2 as i64 == e2, "verif: general - on int32 exact when it fits");
    } else {
        assert!(!fits(e2) && fb2 == (f64::from(x) - f64::from(y)).to_bits(), "verif: general - overflow is the double difference");
    }
    kani::cover!(!fits(e), "addition overflows");
    kani::cover!(true, "reaches end");
    forget(a);
    forget(b);
    forget(s);
    forget(d);
}

// @harness h01g_rem_div_total_general tier=quick props=C01,C02
// @bounds none: ∀ int32 × int32 (jsvalue-enum configuration)
// @domain ∀ x,y∈i32: JsValue::rem / JsValue::div (general methods)
// @claim never panic (i32::MIN % −1, / 0, % 0); x % 0 is NaN; i32::MIN % −1 is −0; 0 / negative is −0
// @stubs std::rt::thread_cleanup→{}; JsValue::to_primitive/to_numeric/to_string→unreachable
#[kani::proof]
#[kani::stub(std::rt::thread_cleanup, noop)]
#[kani::stub(JsValue::to_primitive, stub_to_primitive)]
#[kani::stub(JsValue::to_numeric, stub_to_numeric)]
#[kani::stub(JsValue::to_string, stub_to_string)]
fn h01g_rem_div_total_general() {
    let (x, y, a, b) = ints();
    let ctx = placeholder_ctx();
    let r = match a.rem(&b, ctx) {
        Ok(v) => v,
        Err(e) => {
            forget(e);
            panic!("verif: Number % Number must not throw")
        }
    };
    let (is_int, _iv, fb) = num(&r);
    if y == 0 {
        assert!(!is_int && vm::is_nan_bits(fb), "verif: general x % 0 is NaN");
    }
    if x == i32::MIN && y == -1 {
        assert!(!is_int && fb == 0x8000_0000_0000_0000, "verif: general i32::MIN % -1 is -0");
    }
    let q = match a.div(&b, ctx) {
        Ok(v) => v,
        Err(e) => {
            forget(e);
            panic!("verif: Number / Number must not throw")
        }
    };
    let (q_int, _qv, qb) = num(&q);
    if x == 0 && y < 0 {
        assert!(!q_int && qb == 0x8000_0000_0000_0000, "verif: general 0 / negative is -0");
    }
    kani::cover!(x == i32::MIN && y == -1, "i32::MIN op -1");
    kani::cover!(y == 0, "zero divisor");
    kani::cover!(true, "reaches end");
    forget(a);
    forget(b);
    forget(r);
    forget(q);
}
