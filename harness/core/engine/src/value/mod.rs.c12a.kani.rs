// C12 — value tagging is lossless and unambiguous (public JsValue API; built for the NaN-boxed
// representation and again with `--features jsvalue-enum`: same harness source, same model).
use super::*;
use crate::verif_kani_lib_model as vm;
use std::mem::forget;

fn noop() {}

/// Every "is a heap/other type" observer must be negative for a Number.
fn assert_only_number(v: &JsValue) {
    assert!(v.is_number(), "verif: a Number is_number");
    assert!(!v.is_undefined(), "verif: a Number is not undefined");
    assert!(!v.is_null(), "verif: a Number is not null");
    assert!(!v.is_null_or_undefined(), "verif: a Number is not nullish");
    assert!(!v.is_boolean(), "verif: a Number is not a boolean");
    assert!(!v.is_string(), "verif: a Number is not a string");
    assert!(!v.is_symbol(), "verif: a Number is not a symbol");
    assert!(!v.is_bigint(), "verif: a Number is not a bigint");
    assert!(!v.is_object(), "verif: a Number is not an object");
    assert!(v.as_boolean().is_none(), "verif: as_boolean of a Number is None");
    assert!(v.get_type() == Type::Number, "verif: type of a Number is Number");
    assert!(v.0.as_bool().is_none(), "verif: inner as_bool of a Number is None");
}

// NOTE on structure: under the NaN-boxed representation every call of variant()/clone()/as_number()
// carries the four (infeasible, but not syntactically dead) heap-pointer arms; several of them in one
// harness multiply CBMC's pointer reasoning (measured: 1 call 3 s, 3 calls 236 s, 4 calls > 10 min).
// Each observer group therefore gets its own harness over the same full input domain.

macro_rules! on_i32 {
    ($name:ident, $v:ident, $i:ident, $body:block) => {
        #[kani::proof]
        #[kani::stub(std::rt::thread_cleanup, noop)]
        fn $name() {
            let $i: i32 = kani::any();
            let $v = JsValue::new($i);
            $body;
            kani::cover!($i == i32::MIN, "i32::MIN");
            kani::cover!($i == -1, "minus one (all payload bits set)");
            kani::cover!(true, "reaches end");
            forget($v);
        }
    };
}

// @harness h12a_i32_kind tier=quick props=C12,C02
// @bounds none: the whole i32 domain
// @domain ∀ i∈i32: v = JsValue::new(i)
// @claim v is a Number and no other type (every is_*/as_* observer); stored as Integer32 with payload i; never −0
// @stubs std::rt::thread_cleanup→{}
on_i32!(h12a_i32_kind, v, i, {
    assert_only_number(&v);
    assert!(v.0.is_integer32() && !v.0.is_float64(), "verif: i32 is stored as Integer32");
    assert!(v.0.as_integer32() == Some(i), "verif: inner as_integer32 round trip");
    assert!(v.0.as_float64().is_none(), "verif: Integer32 is not a Float64");
    assert!(!v.is_negative_zero(), "verif: Integer32 is never -0");
});
// @harness h12a_i32_variant tier=quick props=C12,C02
// @bounds none: the whole i32 domain
// @domain ∀ i∈i32: v = JsValue::new(i)
// @claim variant() == Integer32(i); JsValue::from(JsVariant::Integer32(i)) stores Integer32(i)
// @stubs std::rt::thread_cleanup→{}
on_i32!(h12a_i32_variant, v, i, {
    match v.variant() {
        JsVariant::Integer32(j) => assert!(j == i, "verif: variant() payload of Integer32"),
        other => {
            forget(other);
            panic!("verif: variant() of an i32 must be Integer32")
        }
    }
    let w = JsValue::from(JsVariant::Integer32(i));
    assert!(w.0.as_integer32() == Some(i), "verif: From<JsVariant::Integer32>");
    forget(w);
});
// @harness h12a_i32_as_i32 tier=quick props=C12,C02
// @bounds none: the whole i32 domain
// @domain ∀ i∈i32: v = JsValue::new(i)
// @claim as_i32() == Some(i); ToBoolean ⇔ i≠0
// @stubs std::rt::thread_cleanup→{}
on_i32!(h12a_i32_as_i32, v, i, {
    assert!(v.as_i32() == Some(i), "verif: as_i32 round trip");
    assert!(v.to_boolean() == (i != 0), "verif: ToBoolean(Integer32)");
});
// @harness h12a_i32_as_number tier=quick props=C12,C02
// @bounds none: the whole i32 domain
// @domain ∀ i∈i32: v = JsValue::new(i)
// @claim as_number() is Some and bit-equal to f64::from(i) (the lossless std conversion, trusted)
// @stubs std::rt::thread_cleanup→{}
on_i32!(h12a_i32_as_number, v, i, {
    let n = v.as_number();
    assert!(n.is_some(), "verif: as_number of Integer32 is Some");
    assert!(n.unwrap().to_bits() == f64::from(i).to_bits(), "verif: as_number(Integer32(i)) is f64::from(i)");
});
// @harness h12a_i32_clone tier=quick props=C12,C02
// @bounds none: the whole i32 domain
// @domain ∀ i∈i32: v = JsValue::new(i)
// @claim clone() is Integer32(i)
// @stubs std::rt::thread_cleanup→{}
on_i32!(h12a_i32_clone, v, i, {
    let c = v.clone();
    assert!(c.0.as_integer32() == Some(i) && !c.0.is_float64(), "verif: clone preserves Integer32");
    forget(c);
});

macro_rules! on_f64 {
    ($name:ident, $v:ident, $bits:ident, $f:ident, $body:block) => {
        #[kani::proof]
        #[kani::stub(std::rt::thread_cleanup, noop)]
        fn $name() {
            let $bits: u64 = kani::any();
            let $f = f64::from_bits($bits);
            let $v = JsValue::new($f);
            $body;
            kani::cover!(($bits >> 48) == 0x7FFC, "NaN payload coinciding with the object tag");
            kani::cover!(($bits >> 48) == 0x7FF9, "NaN payload coinciding with the int32 tag");
            kani::cover!(($bits >> 48) == 0xFFFF, "negative NaN payload coinciding with the bigint tag");
            kani::cover!($bits == 0x8000_0000_0000_0000, "-0");
            kani::cover!(vm::is_inf_bits($bits), "infinity");
            kani::cover!(true, "reaches end");
            forget($v);
        }
    };
}

// @harness h12a_f64_kind tier=quick props=C12,C02
// @bounds none: all 2^64 bit patterns
// @domain ∀ bits∈u64: v = JsValue::new(f64::from_bits(bits))
// @claim v is a Number and nothing else (every is_*/as_* observer); stored as Float64; NaN input reads back as NaN, any other input reads back bit-identically; is_negative_zero ⇔ bits==0x8000…0
// @stubs std::rt::thread_cleanup→{}
on_f64!(h12a_f64_kind, v, bits, f, {
    assert_only_number(&v);
    assert!(v.0.is_float64() && !v.0.is_integer32(), "verif: f64 is stored as Float64");
    assert!(v.0.as_integer32().is_none(), "verif: Float64 is not an Integer32");
    let back = v.0.as_float64();
    assert!(back.is_some(), "verif: inner as_float64 of a float is Some");
    let back = back.unwrap();
    if vm::is_nan_bits(bits) {
        assert!(vm::is_nan_bits(back.to_bits()), "verif: NaN payloads read back as NaN");
    } else {
        assert!(back.to_bits() == bits, "verif: non-NaN doubles read back bit-identically");
    }
    assert!(v.is_negative_zero() == (bits == 0x8000_0000_0000_0000), "verif: is_negative_zero exact");
});
// @harness h12a_f64_variant tier=quick props=C12,C02
// @bounds none: all 2^64 bit patterns
// @domain ∀ bits∈u64: v = JsValue::new(f64::from_bits(bits))
// @claim variant() is Float64(g) with g SameValue the input; JsValue::from(JsVariant::Float64(f)) likewise
// @stubs std::rt::thread_cleanup→{}
on_f64!(h12a_f64_variant, v, bits, f, {
    match v.variant() {
        JsVariant::Float64(g) => {
            assert!(vm::same_value_bits(g.to_bits(), bits), "verif: variant() payload of Float64 is SameValue")
        }
        other => {
            forget(other);
            panic!("verif: variant() of an f64 must be Float64")
        }
    }
    let w = JsValue::from(JsVariant::Float64(f));
    assert!(w.0.is_float64() && vm::same_value_bits(w.0.as_float64().unwrap().to_bits(), bits), "verif: From<JsVariant::Float64>");
    forget(w);
});
// @harness h12a_f64_as_number tier=quick props=C12,C02
// @bounds none: all 2^64 bit patterns
// @domain ∀ bits∈u64: v = JsValue::new(f64::from_bits(bits))
// @claim as_number() is Some(g), g SameValue the input
// @stubs std::rt::thread_cleanup→{}
on_f64!(h12a_f64_as_number, v, bits, f, {
    let n = v.as_number();
    assert!(n.is_some() && vm::same_value_bits(n.unwrap().to_bits(), bits), "verif: as_number(Float64) is SameValue");
});
// @harness h12a_f64_as_i32 tier=quick props=C12,C02
// @bounds none: all 2^64 bit patterns
// @domain ∀ bits∈u64: v = JsValue::new(f64::from_bits(bits))
// @claim as_i32() ≡ "integral, in int32 range, not −0" (integer-arithmetic model); ToBoolean ⇔ not 0/−0/NaN
// @stubs std::rt::thread_cleanup→{}
on_f64!(h12a_f64_as_i32, v, bits, f, {
    assert!(v.as_i32() == vm::exact_i32(bits), "verif: as_i32(Float64) iff integral, in range, not -0");
    let falsy = vm::is_zero_bits(bits) || vm::is_nan_bits(bits);
    assert!(v.to_boolean() == !falsy, "verif: ToBoolean(Float64)");
    kani::cover!(vm::exact_i32(bits) == Some(i32::MIN), "float equal to i32::MIN");
    kani::cover!(vm::exact_i32(bits).is_none() && !vm::is_nan_bits(bits), "non-integral finite");
});
// @harness h12a_f64_clone tier=quick props=C12,C02
// @bounds none: all 2^64 bit patterns
// @domain ∀ bits∈u64: v = JsValue::new(f64::from_bits(bits))
// @claim clone() is a Float64 SameValue the input
// @stubs std::rt::thread_cleanup→{}
on_f64!(h12a_f64_clone, v, bits, f, {
    let c = v.clone();
    assert!(c.0.is_float64(), "verif: clone of Float64 is Float64");
    assert!(vm::same_value_bits(c.0.as_float64().unwrap().to_bits(), bits), "verif: clone preserves Float64");
    forget(c);
});

macro_rules! from_int {
    ($name:ident, $t:ty) => {
        #[kani::proof]
        #[kani::stub(std::rt::thread_cleanup, noop)]
        fn $name() {
            let x: $t = kani::any();
            let v = JsValue::new(x);
            assert_only_number(&v);
            let fits = (x as i128) >= (i32::MIN as i128) && (x as i128) <= (i32::MAX as i128);
            if fits {
                assert!(v.0.as_integer32() == Some(x as i32), "verif: integers that fit are stored as Integer32");
            } else {
                assert!(v.0.is_float64(), "verif: integers that do not fit are stored as Float64");
                let g = v.0.as_float64().unwrap();
                assert!(g.to_bits() == (x as f64).to_bits(), "verif: out-of-range integer is stored as `x as f64`");
                // |x| < 2^53 ⇒ the stored double is exact
                let a = (x as i128).unsigned_abs();
                if a < (1u128 << 53) {
                    assert!(g.to_bits() == vm::i64_to_f64_bits_exact(x as i64), "verif: |x|<2^53 stored exactly");
                }
            }
            kani::cover!(fits, "fits int32");
            kani::cover!(true, "reaches end");
            forget(v);
        }
    };
}

// @harness h12a_from_u8 tier=quick props=C12
// @domain ∀ x∈u8
// @claim JsValue::new(x) is Integer32(x)
from_int!(h12a_from_u8, u8);
// @harness h12a_from_i8 tier=quick props=C12
// @domain ∀ x∈i8
// @claim JsValue::new(x) is Integer32(x)
from_int!(h12a_from_i8, i8);
// @harness h12a_from_u16 tier=quick props=C12
// @domain ∀ x∈u16
// @claim JsValue::new(x) is Integer32(x)
from_int!(h12a_from_u16, u16);
// @harness h12a_from_i16 tier=quick props=C12
// @domain ∀ x∈i16
// @claim JsValue::new(x) is Integer32(x)
from_int!(h12a_from_i16, i16);
// @harness h12a_from_u32 tier=quick props=C12
// @domain ∀ x∈u32
// @claim Integer32(x) iff x ≤ i32::MAX else Float64(x as f64), exact
from_int!(h12a_from_u32, u32);
// @harness h12a_from_i64 tier=quick props=C12
// @domain ∀ x∈i64
// @claim Integer32 iff it fits, else Float64(x as f64); exact for |x|<2^53
from_int!(h12a_from_i64, i64);
// @harness h12a_from_u64 tier=quick props=C12
// @domain ∀ x∈u64
// @claim Integer32 iff it fits, else Float64(x as f64); exact for x<2^53
from_int!(h12a_from_u64, u64);
// @harness h12a_from_usize tier=quick props=C12
// @domain ∀ x∈usize
// @claim Integer32 iff it fits, else Float64(x as f64)
from_int!(h12a_from_usize, usize);
// @harness h12a_from_isize tier=quick props=C12
// @domain ∀ x∈isize
// @claim Integer32 iff it fits, else Float64(x as f64)
from_int!(h12a_from_isize, isize);

// @harness h12a_from_f32 tier=quick props=C12
// @bounds none: all 2^32 f32 bit patterns
// @domain ∀ bits∈u32: v = JsValue::new(f32::from_bits(bits))
// @claim stored as Float64 holding the widened value (NaN stays NaN, otherwise bit-equal to `f as f64`)
#[kani::proof]
#[kani::stub(std::rt::thread_cleanup, noop)]
fn h12a_from_f32() {
    let b: u32 = kani::any();
    let f = f32::from_bits(b);
    let v = JsValue::new(f);
    assert_only_number(&v);
    assert!(v.0.is_float64(), "verif: f32 is stored as Float64");
    let g = v.0.as_float64().unwrap();
    assert!(vm::same_value_bits(g.to_bits(), f64::from(f).to_bits()), "verif: f32 widened losslessly");
    kani::cover!(f.is_nan(), "f32 NaN");
    kani::cover!(true, "reaches end");
    forget(v);
}

// @harness h12a_prims tier=quick props=C12,C02
// @domain ∀ b∈bool; null; undefined; ()
// @claim booleans, null and undefined round-trip, are mutually exclusive with every other type, and JsVariant→JsValue→JsVariant is the identity on them
// @stubs std::rt::thread_cleanup→{}
#[kani::proof]
#[kani::stub(std::rt::thread_cleanup, noop)]
fn h12a_prims() {
    let b: bool = kani::any();
    let v = JsValue::new(b);
    assert!(v.is_boolean() && v.as_boolean() == Some(b), "verif: boolean round trip");
    assert!(!v.is_number() && !v.is_undefined() && !v.is_null() && !v.is_null_or_undefined(), "verif: boolean is only a boolean (1)");
    assert!(!v.is_string() && !v.is_symbol() && !v.is_bigint() && !v.is_object(), "verif: boolean is only a boolean (2)");
    assert!(v.as_number().is_none() && v.as_i32().is_none(), "verif: boolean is not a number");
    assert!(v.0.as_integer32().is_none() && v.0.as_float64().is_none(), "verif: boolean has no numeric payload");
    assert!(v.to_boolean() == b, "verif: ToBoolean(boolean)");
    assert!(v.get_type() == Type::Boolean, "verif: type of boolean");
    assert!(matches!(v.variant(), JsVariant::Boolean(x) if x == b), "verif: variant() of boolean");
    let w = JsValue::from(JsVariant::Boolean(b));
    assert!(w.as_boolean() == Some(b), "verif: From<JsVariant::Boolean>");

    let n = JsValue::null();
    assert!(n.is_null() && n.is_null_or_undefined() && !n.is_undefined(), "verif: null is null");
    assert!(!n.is_number() && !n.is_boolean() && !n.is_string() && !n.is_symbol() && !n.is_bigint() && !n.is_object(), "verif: null is only null");
    assert!(n.as_number().is_none() && n.as_boolean().is_none() && n.as_i32().is_none(), "verif: null has no payload");
    assert!(!n.to_boolean() && n.get_type() == Type::Null, "verif: null is falsy, type Null");
    assert!(matches!(n.variant(), JsVariant::Null), "verif: variant() of null");
    assert!(JsValue::from(JsVariant::Null).is_null(), "verif: From<JsVariant::Null>");
    assert!(JsValue::new(()).is_null(), "verif: From<()> is null");

    let u = JsValue::undefined();
    assert!(u.is_undefined() && u.is_null_or_undefined() && !u.is_null(), "verif: undefined is undefined");
    assert!(!u.is_number() && !u.is_boolean() && !u.is_string() && !u.is_symbol() && !u.is_bigint() && !u.is_object(), "verif: undefined is only undefined");
    assert!(u.as_number().is_none() && u.as_boolean().is_none() && u.as_i32().is_none(), "verif: undefined has no payload");
    assert!(!u.to_boolean() && u.get_type() == Type::Undefined, "verif: undefined is falsy, type Undefined");
    assert!(matches!(u.variant(), JsVariant::Undefined), "verif: variant() of undefined");
    assert!(JsValue::from(JsVariant::Undefined).is_undefined(), "verif: From<JsVariant::Undefined>");
    assert!(JsValue::default().is_undefined(), "verif: Default is undefined");

    let nan = JsValue::nan();
    assert!(nan.is_number() && nan.as_number().unwrap().is_nan(), "verif: JsValue::nan()");
    assert!(JsValue::positive_infinity().as_number() == Some(f64::INFINITY), "verif: +inf");
    assert!(JsValue::negative_infinity().as_number() == Some(f64::NEG_INFINITY), "verif: -inf");
    kani::cover!(b, "true");
    kani::cover!(!b, "false");
    kani::cover!(true, "reaches end");
}
