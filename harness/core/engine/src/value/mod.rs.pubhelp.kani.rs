// Helper visible crate-wide (injected as `pub(crate) mod`): reads a Number out of a JsValue through the inner
// tag accessors only (no variant()/clone(): those carry the heap-pointer arms, DESIGN 9.1).
use super::*;

/// Some((is_int, int payload, float bits)) for a Number, None otherwise.
pub(crate) fn read_number(v: &JsValue) -> Option<(bool, i32, u64)> {
    if let Some(i) = v.0.as_integer32() {
        Some((true, i, 0))
    } else if let Some(f) = v.0.as_float64() {
        Some((false, 0, f.to_bits()))
    } else {
        None
    }
}
