// C01 — Number×Number operator kernels used by the VM (the `*_fast` paths) against ECMAScript
// Number::op stated in the INTEGER domain (exact i64 result + range / −0 side conditions), so that no
// int-vs-float adder/multiplier equivalence has to be proved (DESIGN 2.3).
//
// Reading of results: through the inner tag accessors only, every JsValue is mem::forget-ed.
use super::*;
use crate::verif_kani_lib_model as vm;
use std::mem::forget;

fn noop() {}

/// Decoded numeric result.
#[derive(Clone, Copy)]
enum R {
    Int(i32),
    Flt(u64),
}
fn read(v: &JsValue) -> R {
    if let Some(i) = v.0.as_integer32() {
        R::Int(i)
    } else if let Some(f) = v.0.as_float64() {
        R::Flt(f.to_bits())
    } else {
        panic!("verif: numeric operator returned a non-Number")
    }
}
/// ∀ x,y ∈ i32 stored as Integer32.  The model operands are read back through the same accessor the
/// kernel uses (`.0.as_integer32()`), so that model and implementation share operand expressions in the
/// solver (DESIGN 2.3); that the read-back equals what was stored is asserted here and is C12's subject.
fn ints() -> (i32, i32, JsValue, JsValue) {
    let x0: i32 = kani::any();
    let y0: i32 = kani::any();
    let a = JsValue::new(x0);
    let b = JsValue::new(y0);
    let x = a.0.as_integer32().expect("verif: Integer32 operand reads back");
    let y = b.0.as_integer32().expect("verif: Integer32 operand reads back");
    assert!(x == x0 && y == y0, "verif: Integer32 operands read back unchanged");
    (x, y, a, b)
}
fn fits(e: i64) -> bool {
    e >= i32::MIN as i64 && e <= i32::MAX as i64
}

// @harness h01a_add_sub tier=quick props=C01,C02
// @bounds none: ∀ int32 × int32
// @domain ∀ x,y∈i32 as Integer32 operands
// @claim add_fast/sub_fast return Some; result is Integer32(exact) iff the exact i64 sum/difference fits int32, otherwise Float64 bit-equal to f64::from(x) ± f64::from(y) (exact: |result| < 2^33); never panics
// @stubs std::rt::thread_cleanup→{}
#[kani::proof]
#[kani::stub(std::rt::thread_cleanup, noop)]
fn h01a_add_sub() {
    let (x, y, a, b) = ints();
    let s = a.add_fast(&b).expect("verif: add_fast on numbers is Some");
    let e = x as i64 + y as i64;
    match read(&s) {
        R::Int(i) => assert!(fits(e) && i as i64 == e, "verif: int32 + int32 exact when it fits"),
        R::Flt(f) => {
            assert!(!fits(e), "verif: int32 + int32 leaves the int path only on overflow");
            assert!(f == (f64::from(x) + f64::from(y)).to_bits(), "verif: overflowed + is the double sum");
        }
    }
    let d = a.sub_fast(&b).expect("verif: sub_fast on numbers is Some");
    let e2 = x as i64 - y as i64;
    match read(&d) {
        R::Int(i) => assert!(fits(e2) && i as i64 == e2, "verif: int32 - int32 exact when it fits"),
        R::Flt(f) => {
            assert!(!fits(e2), "verif: int32 - int32 leaves the int path only on overflow");
            assert!(f == (f64::from(x) - f64::from(y)).to_bits(), "verif: overflowed - is the double difference");
        }
    }
    kani::cover!(!fits(e), "addition overflows int32");
    kani::cover!(!fits(e2), "subtraction overflows int32");
    kani::cover!(x == i32::MIN && y == i32::MIN, "MIN + MIN");
    kani::cover!(true, "reaches end");
    forget(a);
    forget(b);
    forget(s);
    forget(d);
}

// @harness h01a_mul tier=never props=C01,C02
// @bounds none: ∀ int32 × int32
// @domain ∀ x,y∈i32 as Integer32 operands
// @claim mul_fast: Integer32(exact) iff the exact i64 product fits int32 and is not a −0 case (product 0 with a negative operand); in the −0 case the result is exactly −0; otherwise Float64 bit-equal to f64::from(x)*f64::from(y); never panics
// @stubs std::rt::thread_cleanup→{}
#[kani::proof]
#[kani::stub(std::rt::thread_cleanup, noop)]
fn h01a_mul() {
    let (x, y, a, b) = ints();
    let p = a.mul_fast(&b).expect("verif: mul_fast on numbers is Some");
    let e = x as i64 * y as i64;
    let neg_zero = e == 0 && (x < 0 || y < 0);
    match read(&p) {
        R::Int(i) => assert!(fits(e) && !neg_zero && i as i64 == e, "verif: int32 * int32 exact when it fits and is not -0"),
        R::Flt(f) => {
            assert!(!fits(e) || neg_zero, "verif: int32 * int32 leaves the int path only on overflow or -0");
            if neg_zero {
                assert!(f == 0x8000_0000_0000_0000, "verif: 0 * negative is -0");
            } else {
                assert!(f == (f64::from(x) * f64::from(y)).to_bits(), "verif: overflowed * is the double product");
            }
        }
    }
    kani::cover!(neg_zero, "-0 case");
    kani::cover!(!fits(e), "product overflows int32");
    kani::cover!(true, "reaches end");
    forget(a);
    forget(b);
    forget(p);
}

// @harness h01a_div_total tier=thorough props=C01,C02
// @bounds none: ∀ int32 × int32
// @domain ∀ x,y∈i32 as Integer32 operands
// @claim div_fast never panics (no `/` overflow on (i32::MIN, −1), no division by zero) and returns a Number; y==0 ⇒ ±∞ (NaN for 0/0); (i32::MIN, −1) ⇒ the double 2147483648
// @stubs std::rt::thread_cleanup→{}
#[kani::proof]
#[kani::stub(std::rt::thread_cleanup, noop)]
fn h01a_div_total() {
    let (x, y, a, b) = ints();
    let q = a.div_fast(&b).expect("verif: div_fast on numbers is Some");
    let rq = read(&q);
    if y == 0 {
        assert!(matches!(rq, R::Flt(f) if vm::is_nan_bits(f) == (x == 0) && (vm::is_nan_bits(f) || vm::is_inf_bits(f))), "verif: x / 0 is ±Infinity, 0/0 is NaN");
    }
    if x == i32::MIN && y == -1 {
        assert!(matches!(rq, R::Flt(0x41E0_0000_0000_0000)), "verif: i32::MIN / -1 is 2147483648");
    }
    kani::cover!(x == i32::MIN && y == -1, "i32::MIN / -1");
    kani::cover!(y == 0, "zero divisor");
    kani::cover!(true, "reaches end");
    forget(a);
    forget(b);
    forget(q);
}

// @harness h01a_rem_total tier=quick props=C01,C02
// @bounds none: ∀ int32 × int32
// @domain ∀ x,y∈i32 as Integer32 operands
// @claim rem_fast never panics (no `%` overflow on (i32::MIN, −1), no division by zero) and returns a Number; y==0 ⇒ NaN; (i32::MIN, −1) ⇒ −0
// @stubs std::rt::thread_cleanup→{}
#[kani::proof]
#[kani::stub(std::rt::thread_cleanup, noop)]
fn h01a_rem_total() {
    let (x, y, a, b) = ints();
    let r = a.rem_fast(&b).expect("verif: rem_fast on numbers is Some");
    let rr = read(&r);
    if y == 0 {
        assert!(matches!(rr, R::Flt(f) if vm::is_nan_bits(f)), "verif: x % 0 is NaN");
    }
    if x == i32::MIN && y == -1 {
        assert!(matches!(rr, R::Flt(0x8000_0000_0000_0000)), "verif: i32::MIN % -1 is -0");
    }
    kani::cover!(x == i32::MIN && y == -1, "i32::MIN % -1");
    kani::cover!(y == 0, "zero divisor");
    kani::cover!(true, "reaches end");
    forget(a);
    forget(b);
    forget(r);
}

// @harness h01a_div tier=never props=C01,C02
// @bounds none: ∀ int32 × int32 except y=0 and (i32::MIN,−1), which h01a_divrem_total decides
// @domain ∀ x,y∈i32, y≠0, (x,y)≠(MIN,−1), as Integer32 operands
// @claim div_fast ≡ Number::divide in the integer domain: Integer32(q) iff y divides x exactly (q·y = x with q the truncated quotient) and the result is not a −0 case (x = 0 with y < 0); 0/negative is exactly −0; otherwise the Float64 f64::from(x)/f64::from(y)
// @stubs std::rt::thread_cleanup→{}
#[kani::proof]
#[kani::stub(std::rt::thread_cleanup, noop)]
fn h01a_div() {
    let (x, y, a, b) = ints();
    kani::assume(y != 0 && !(x == i32::MIN && y == -1));
    let q = a.div_fast(&b).expect("verif: div_fast on numbers is Some");
    let qq = x / y; // truncated quotient (same machine operation and operands as the kernel: shared by the solver)
    let divisible = qq.wrapping_mul(y) == x; // |qq*y| <= |x|: no wrap can occur
    let neg_zero = x == 0 && y < 0;
    match read(&q) {
        R::Int(i) => assert!(divisible && !neg_zero && i == qq, "verif: int32 / int32 is an Integer32 only when exact and not -0"),
        R::Flt(f) => {
            assert!(!divisible || neg_zero, "verif: int32 / int32 leaves the int path only when inexact or -0");
            if neg_zero {
                assert!(f == 0x8000_0000_0000_0000, "verif: 0 / negative is -0");
            } else {
                assert!(f == (f64::from(x) / f64::from(y)).to_bits(), "verif: inexact / is the double quotient");
            }
        }
    }
    kani::cover!(neg_zero, "0 / negative");
    kani::cover!(divisible && x != 0, "exact quotient");
    kani::cover!(!divisible, "inexact quotient");
    kani::cover!(true, "reaches end");
    forget(a);
    forget(b);
    forget(q);
}

// @harness h01a_rem tier=never props=C01,C02
// @bounds none: ∀ int32 × int32 except y=0 and (i32::MIN,−1), which h01a_divrem_total decides
// @domain ∀ x,y∈i32, y≠0, (x,y)≠(MIN,−1), as Integer32 operands
// @claim rem_fast ≡ Number::remainder: the truncated remainder (Rust `%`: sign of the dividend) as Integer32, except that a zero remainder of a negative dividend is exactly −0
// @stubs std::rt::thread_cleanup→{}
#[kani::proof]
#[kani::stub(std::rt::thread_cleanup, noop)]
fn h01a_rem() {
    let (x, y, a, b) = ints();
    kani::assume(y != 0 && !(x == i32::MIN && y == -1));
    let r = a.rem_fast(&b).expect("verif: rem_fast on numbers is Some");
    let m = x % y;
    match read(&r) {
        R::Int(i) => assert!(i == m && !(m == 0 && x < 0), "verif: int32 % int32 is the truncated remainder"),
        R::Flt(f) => {
            assert!(m == 0 && x < 0, "verif: % leaves the int path only for -0");
            assert!(f == 0x8000_0000_0000_0000, "verif: negative % divisor-multiple is -0");
        }
    }
    kani::cover!(m == 0 && x < 0, "-0 remainder");
    kani::cover!(m < 0, "negative remainder");
    kani::cover!(true, "reaches end");
    forget(a);
    forget(b);
    forget(r);
}

/// independent i64 model of Number::divide / Number::remainder on int32 operands, y != 0
fn check_div(x: i32, y: i32, rq: R) {
    let xe = x as i64;
    let ye = y as i64;
    let divisible = xe % ye == 0;
    let q = xe / ye;
    let neg_zero = x == 0 && y < 0;
    match rq {
        R::Int(i) => assert!(divisible && fits(q) && !neg_zero && i as i64 == q, "verif: int32 / const is an Integer32 only when exact, in range and not -0"),
        R::Flt(f) => {
            assert!(!divisible || !fits(q) || neg_zero, "verif: int32 / const leaves the int path only when inexact, out of range or -0");
            if neg_zero {
                assert!(f == 0x8000_0000_0000_0000, "verif: 0 / negative const is -0");
            }
        }
    }
}
fn check_rem(x: i32, y: i32, rr: R) {
    let m = (x as i64) % (y as i64);
    match rr {
        R::Int(i) => assert!(i as i64 == m && !(m == 0 && x < 0), "verif: int32 % const is the truncated remainder"),
        R::Flt(f) => assert!(m == 0 && x < 0 && f == 0x8000_0000_0000_0000, "verif: negative % const multiple is -0"),
    }
}

macro_rules! divrem_by_const {
    ($name:ident, $d:expr) => {
        #[kani::proof]
        #[kani::stub(std::rt::thread_cleanup, noop)]
        fn $name() {
            let x: i32 = kani::any();
            let y: i32 = $d;
            kani::assume(!(x == i32::MIN && y == -1));
            let a = JsValue::new(x);
            let b = JsValue::new(y);
            let q = a.div_fast(&b).expect("verif: div_fast on numbers is Some");
            let r = a.rem_fast(&b).expect("verif: rem_fast on numbers is Some");
            check_div(x, y, read(&q));
            check_rem(x, y, read(&r));
            kani::cover!(x == 0, "zero dividend");
            kani::cover!(x < 0, "negative dividend");
            kani::cover!(true, "reaches end");
            forget(a);
            forget(b);
            forget(q);
            forget(r);
        }
    };
}

// @harness h01a_divrem_by_m1 tier=quick props=C01,C02
// @bounds divisor = −1 × ∀ dividend ∈ i32∖{MIN}
// @domain ∀ x∈i32, x≠MIN; y = −1
// @claim div_fast/rem_fast against an independent 64-bit model (x/−1 = −x exactly, 0/−1 = −0, x % −1 = ±0)
// @stubs std::rt::thread_cleanup→{}
divrem_by_const!(h01a_divrem_by_m1, -1);
// @harness h01a_divrem_by_3 tier=quick props=C01,C02
// @bounds divisor = 3 × ∀ dividend ∈ i32
// @domain ∀ x∈i32; y = 3
// @claim div_fast/rem_fast against an independent 64-bit model
// @stubs std::rt::thread_cleanup→{}
divrem_by_const!(h01a_divrem_by_3, 3);
// @harness h01a_divrem_by_m8 tier=quick props=C01,C02
// @bounds divisor = −8 × ∀ dividend ∈ i32
// @domain ∀ x∈i32; y = −8
// @claim div_fast/rem_fast against an independent 64-bit model
// @stubs std::rt::thread_cleanup→{}
divrem_by_const!(h01a_divrem_by_m8, -8);
// @harness h01a_divrem_by_min tier=quick props=C01,C02
// @bounds divisor = i32::MIN × ∀ dividend ∈ i32
// @domain ∀ x∈i32; y = i32::MIN
// @claim div_fast/rem_fast against an independent 64-bit model
// @stubs std::rt::thread_cleanup→{}
divrem_by_const!(h01a_divrem_by_min, i32::MIN);

// @harness h01a_bitwise_shift tier=quick props=C01,C02
// @bounds none: ∀ int32 × int32
// @domain ∀ x,y∈i32 as Integer32 operands
// @claim bitand/bitor/bitxor ≡ &,|,^ ; shl ≡ x << (y mod 32) wrapped to int32 ; shr ≡ arithmetic >> (y mod 32) ; ushr ≡ (x as u32) >> (y mod 32) as a Number (Integer32 iff ≤ i32::MAX, else the exact double); all Some, none panics
// @stubs std::rt::thread_cleanup→{}
#[kani::proof]
#[kani::stub(std::rt::thread_cleanup, noop)]
fn h01a_bitwise_shift() {
    let (x, y, a, b) = ints();
    let sh = (y as u32) & 31;
    let r1 = a.bitand_fast(&b).expect("verif: bitand_fast Some");
    let r2 = a.bitor_fast(&b).expect("verif: bitor_fast Some");
    let r3 = a.bitxor_fast(&b).expect("verif: bitxor_fast Some");
    assert!(matches!(read(&r1), R::Int(i) if i == x & y), "verif: int32 & int32");
    assert!(matches!(read(&r2), R::Int(i) if i == x | y), "verif: int32 | int32");
    assert!(matches!(read(&r3), R::Int(i) if i == x ^ y), "verif: int32 ^ int32");
    let r4 = a.shl_fast(&b).expect("verif: shl_fast Some");
    let want_shl = (((x as u32 as u64) << sh) & 0xFFFF_FFFF) as u32 as i32;
    assert!(matches!(read(&r4), R::Int(i) if i == want_shl), "verif: int32 << int32");
    let r5 = a.shr_fast(&b).expect("verif: shr_fast Some");
    let want_shr = ((x as i64) >> sh) as i32;
    assert!(matches!(read(&r5), R::Int(i) if i == want_shr), "verif: int32 >> int32");
    let r6 = a.ushr_fast(&b).expect("verif: ushr_fast Some");
    let want_u = (x as u32 as u64) >> sh;
    match read(&r6) {
        R::Int(i) => assert!(want_u <= i32::MAX as u64 && i as u64 == want_u, "verif: int32 >>> int32 small"),
        R::Flt(f) => {
            assert!(want_u > i32::MAX as u64, "verif: >>> is a double only above i32::MAX");
            assert!(f == vm::i64_to_f64_bits_exact(want_u as i64), "verif: int32 >>> int32 large is exact");
        }
    }
    kani::cover!(y < 0, "negative shift count");
    kani::cover!(sh == 0 && x < 0, "x >>> 0 with negative x (above i32::MAX)");
    kani::cover!(y >= 32, "shift count ≥ 32");
    kani::cover!(true, "reaches end");
    forget(a);
    forget(b);
    forget(r1);
    forget(r2);
    forget(r3);
    forget(r4);
    forget(r5);
    forget(r6);
}

// @harness h01a_compare_int tier=quick props=C01,C02
// @bounds none: ∀ int32 × int32
// @domain ∀ x,y∈i32 as Integer32 operands
// @claim lt/le/gt/ge_fast ≡ <,≤,>,≥ on the integers; equals_fast/not_equals_fast are Boolean(x==y)/Boolean(x!=y)
// @stubs std::rt::thread_cleanup→{}
#[kani::proof]
#[kani::stub(std::rt::thread_cleanup, noop)]
fn h01a_compare_int() {
    let (x, y, a, b) = ints();
    assert!(a.lt_fast(&b) == Some(x < y), "verif: int32 < int32");
    assert!(a.le_fast(&b) == Some(x <= y), "verif: int32 <= int32");
    assert!(a.gt_fast(&b) == Some(x > y), "verif: int32 > int32");
    assert!(a.ge_fast(&b) == Some(x >= y), "verif: int32 >= int32");
    let e = a.equals_fast(&b).expect("verif: equals_fast Some");
    let n = a.not_equals_fast(&b).expect("verif: not_equals_fast Some");
    assert!(e.0.as_bool() == Some(x == y), "verif: int32 == int32");
    assert!(n.0.as_bool() == Some(x != y), "verif: int32 != int32");
    kani::cover!(x == y, "equal");
    kani::cover!(true, "reaches end");
    forget(a);
    forget(b);
    forget(e);
    forget(n);
}

fn mixed() -> (f64, u64, f64, u64, JsValue, JsValue) {
    // operand 1: Integer32 or Float64 ; operand 2: Float64 — plus the symmetric order via `swap`
    let xi: i32 = kani::any();
    let xf: u64 = kani::any();
    let x_is_int: bool = kani::any();
    let yb: u64 = kani::any();
    let (a, xv) = if x_is_int { (JsValue::new(xi), f64::from(xi)) } else { (JsValue::new(f64::from_bits(xf)), f64::from_bits(xf)) };
    let b = JsValue::new(f64::from_bits(yb));
    (xv, xv.to_bits(), f64::from_bits(yb), yb, a, b)
}

// @harness h01b_compare_mixed tier=quick props=C01,C02
// @bounds none: ∀ (int32 ∪ double) × double, both operand orders
// @domain ∀ x∈i32 ∪ f64 bits, ∀ y∈f64 bits; operators applied as (x,y) and (y,x)
// @claim lt/le/gt/ge_fast ≡ IEEE <,≤,>,≥ (false when either is NaN); equals_fast ≡ IEEE == (NaN≠NaN, −0==+0): models are integer comparisons of the bit patterns
// @stubs std::rt::thread_cleanup→{}
#[kani::proof]
#[kani::stub(std::rt::thread_cleanup, noop)]
fn h01b_compare_mixed() {
    let (_xv, xb, _yv, yb, a, b) = mixed();
    let nan = vm::is_nan_bits(xb) || vm::is_nan_bits(yb);
    assert!(a.lt_fast(&b) == Some(vm::lt_bits(xb, yb)), "verif: x < y");
    assert!(b.lt_fast(&a) == Some(vm::lt_bits(yb, xb)), "verif: y < x");
    assert!(a.gt_fast(&b) == Some(vm::lt_bits(yb, xb)), "verif: x > y");
    assert!(a.le_fast(&b) == Some(!nan && !vm::lt_bits(yb, xb)), "verif: x <= y");
    assert!(a.ge_fast(&b) == Some(!nan && !vm::lt_bits(xb, yb)), "verif: x >= y");
    assert!(b.le_fast(&a) == Some(!nan && !vm::lt_bits(xb, yb)), "verif: y <= x");
    let e = a.equals_fast(&b).expect("verif: equals_fast Some");
    let n = b.not_equals_fast(&a).expect("verif: not_equals_fast Some");
    assert!(e.0.as_bool() == Some(vm::eq_bits(xb, yb)), "verif: x == y (IEEE)");
    assert!(n.0.as_bool() == Some(!vm::eq_bits(xb, yb)), "verif: y != x (IEEE)");
    kani::cover!(nan, "NaN operand");
    kani::cover!(xb == 0 && yb == 0x8000_0000_0000_0000, "+0 vs -0");
    kani::cover!(a.0.is_integer32() && vm::eq_bits(xb, yb), "int equal to double");
    kani::cover!(true, "reaches end");
    forget(a);
    forget(b);
    forget(e);
    forget(n);
}

macro_rules! arith_mixed {
    ($name:ident, $fast:ident, $op:tt, $msg1:literal, $msg2:literal) => {
        #[kani::proof]
        #[kani::stub(std::rt::thread_cleanup, noop)]
        fn $name() {
            let (_x, _xb, _y, _yb, a, b) = mixed();
            // model operands: read back through the accessor the kernel uses (shared solver expressions)
            let xv = a.as_number_cheap().expect("verif: numeric operand");
            let yv = b.as_number_cheap().expect("verif: numeric operand");
            let r1 = a.$fast(&b).expect("verif: fast path on numbers is Some");
            let r2 = b.$fast(&a).expect("verif: fast path on numbers is Some");
            assert!(matches!(read(&r1), R::Flt(f) if vm::same_value_bits(f, (xv $op yv).to_bits())), $msg1);
            assert!(matches!(read(&r2), R::Flt(f) if vm::same_value_bits(f, (yv $op xv).to_bits())), $msg2);
            kani::cover!(a.0.is_integer32(), "int ⊕ double");
            kani::cover!(a.0.is_float64(), "double ⊕ double");
            kani::cover!(true, "reaches end");
            forget(a);
            forget(b);
            forget(r1);
            forget(r2);
        }
    };
}

// @harness h01b_add_mixed tier=thorough props=C01,C02
// @bounds none: ∀ (int32 ∪ double) × double, both operand orders
// @domain ∀ x∈i32 ∪ f64 bits, ∀ y∈f64 bits
// @claim add_fast returns a Float64 SameValue to the IEEE sum of the operands converted to double (NaN reads back as NaN)
// @stubs std::rt::thread_cleanup→{}
arith_mixed!(h01b_add_mixed, add_fast, +, "verif: x + y", "verif: y + x");
// @harness h01b_sub_mixed tier=thorough props=C01,C02
// @bounds none: ∀ (int32 ∪ double) × double, both operand orders
// @domain ∀ x∈i32 ∪ f64 bits, ∀ y∈f64 bits
// @claim sub_fast returns a Float64 SameValue to the IEEE difference in the right operand order (x−y vs y−x)
// @stubs std::rt::thread_cleanup→{}
arith_mixed!(h01b_sub_mixed, sub_fast, -, "verif: x - y", "verif: y - x");
// @harness h01b_mul_mixed tier=never props=C01,C02
// @bounds none: ∀ (int32 ∪ double) × double, both operand orders
// @domain ∀ x∈i32 ∪ f64 bits, ∀ y∈f64 bits
// @claim mul_fast returns a Float64 SameValue to the IEEE product
// @stubs std::rt::thread_cleanup→{}
arith_mixed!(h01b_mul_mixed, mul_fast, *, "verif: x * y", "verif: y * x");
// @harness h01b_div_mixed tier=never props=C01,C02
// @bounds none: ∀ (int32 ∪ double) × double, both operand orders
// @domain ∀ x∈i32 ∪ f64 bits, ∀ y∈f64 bits
// @claim div_fast returns a Float64 SameValue to the IEEE quotient in the right operand order (x/y vs y/x)
// @stubs std::rt::thread_cleanup→{}
arith_mixed!(h01b_div_mixed, div_fast, /, "verif: x / y", "verif: y / x");

// ---------------------------------------------------------------------------------------------
// quick-tier variants with one operand enumerated.  The ∀×∀ versions above (h01a_mul, h01a_div, h01a_rem,
// h01b_mul_mixed, h01b_div_mixed, h01b_arith_int_by_1p5) are tier=never: they did not finish within 25 min under the
// thorough tier (two symbolic multipliers/dividers or two FP circuits to be proved equal) and are kept only as a record.

macro_rules! mul_by_const {
    ($name:ident, $c:expr) => {
        #[kani::proof]
        #[kani::stub(std::rt::thread_cleanup, noop)]
        fn $name() {
            let x: i32 = kani::any();
            let y: i32 = $c;
            let a = JsValue::new(x);
            let b = JsValue::new(y);
            let e = x as i64 * y as i64;
            let neg_zero = e == 0 && (x < 0 || y < 0);
            let p1 = a.mul_fast(&b).expect("verif: mul_fast on numbers is Some");
            let p2 = b.mul_fast(&a).expect("verif: mul_fast on numbers is Some");
            let rs = [read(&p1), read(&p2)];
            let mut k = 0;
            while k < 2 {
                match rs[k] {
                    R::Int(i) => assert!(fits(e) && !neg_zero && i as i64 == e, "verif: int32 * const exact when it fits and is not -0"),
                    R::Flt(f) => {
                        assert!(!fits(e) || neg_zero, "verif: int32 * const leaves the int path only on overflow or -0");
                        if neg_zero {
                            assert!(f == 0x8000_0000_0000_0000, "verif: 0 * negative is -0");
                        } else {
                            // |e| < 2^63 and a product of two int32 is exactly representable iff it has ≤ 53 significant bits;
                            // the double product is the correctly rounded exact product: check it by converting back when exact
                            if e.unsigned_abs() < (1u64 << 53) {
                                assert!(f == vm::i64_to_f64_bits_exact(e), "verif: overflowed * is the exact product");
                            }
                        }
                    }
                }
                k += 1;
            }
            kani::cover!(neg_zero || !fits(e), "int path left (-0 or overflow)");
            kani::cover!(fits(e) && !neg_zero, "int path taken");
            kani::cover!(true, "reaches end");
            forget(a);
            forget(b);
            forget(p1);
            forget(p2);
        }
    };
}
// @harness h01a_mul_by_0 tier=quick props=C01,C02
// @bounds multiplier = 0 × ∀ x∈i32, both operand orders
// @domain ∀ x∈i32; y = 0
// @claim mul_fast: 0 for x ≥ 0, exactly −0 for x < 0
// @stubs std::rt::thread_cleanup→{}
mul_by_const!(h01a_mul_by_0, 0);
// @harness h01a_mul_by_m1 tier=quick props=C01,C02
// @bounds multiplier = −1 × ∀ x∈i32, both operand orders
// @domain ∀ x∈i32; y = −1
// @claim mul_fast: −x exactly; 0·−1 is −0; i32::MIN·−1 is the double 2147483648
// @stubs std::rt::thread_cleanup→{}
mul_by_const!(h01a_mul_by_m1, -1);
// @harness h01a_mul_by_3 tier=quick props=C01,C02
// @bounds multiplier = 3 × ∀ x∈i32, both operand orders
// @domain ∀ x∈i32; y = 3
// @claim mul_fast: Integer32 iff 3x fits, else the exact double
// @stubs std::rt::thread_cleanup→{}
mul_by_const!(h01a_mul_by_3, 3);
// @harness h01a_mul_by_65536 tier=quick props=C01,C02
// @bounds multiplier = 65536 × ∀ x∈i32, both operand orders
// @domain ∀ x∈i32; y = 65536
// @claim mul_fast: Integer32 iff it fits, else the exact double
// @stubs std::rt::thread_cleanup→{}
mul_by_const!(h01a_mul_by_65536, 65536);
// @harness h01a_mul_by_min tier=quick props=C01,C02
// @bounds multiplier = i32::MIN × ∀ x∈i32, both operand orders
// @domain ∀ x∈i32; y = i32::MIN
// @claim mul_fast: Integer32 iff it fits and is not −0, else the exact double
// @stubs std::rt::thread_cleanup→{}
mul_by_const!(h01a_mul_by_min, i32::MIN);

// @harness h01a_div_special tier=quick props=C01,C02
// @bounds divisor ∈ {0} × ∀ x∈i32, plus the single pair (i32::MIN, −1)
// @domain ∀ x∈i32 with y=0; (MIN,−1)
// @claim div_fast never panics there: x/0 is ±Infinity by the sign of x, 0/0 is NaN; i32::MIN/−1 is the double 2147483648
// @stubs std::rt::thread_cleanup→{}
#[kani::proof]
#[kani::stub(std::rt::thread_cleanup, noop)]
fn h01a_div_special() {
    let x: i32 = kani::any();
    let a = JsValue::new(x);
    let z = JsValue::new(0i32);
    let q = a.div_fast(&z).expect("verif: div_fast on numbers is Some");
    match read(&q) {
        R::Int(_) => panic!("verif: x / 0 is never an integer"),
        R::Flt(f) => {
            if x == 0 {
                assert!(vm::is_nan_bits(f), "verif: 0 / 0 is NaN");
            } else {
                assert!(f == if x > 0 { 0x7FF0_0000_0000_0000 } else { 0xFFF0_0000_0000_0000 }, "verif: x / 0 is ±Infinity");
            }
        }
    }
    let m = JsValue::new(i32::MIN);
    let m1 = JsValue::new(-1i32);
    let q2 = m.div_fast(&m1).expect("verif: div_fast on numbers is Some");
    assert!(matches!(read(&q2), R::Flt(0x41E0_0000_0000_0000)), "verif: i32::MIN / -1 is 2147483648");
    kani::cover!(x < 0, "negative / 0");
    kani::cover!(true, "reaches end");
    forget(a);
    forget(z);
    forget(q);
    forget(m);
    forget(m1);
    forget(q2);
}

macro_rules! arith_int_by_double_const {
    ($name:ident, $c:expr) => {
        #[kani::proof]
        #[kani::stub(std::rt::thread_cleanup, noop)]
        fn $name() {
            let x: i32 = kani::any();
            let a = JsValue::new(x);
            let xv = f64::from(x);
            let c: f64 = $c;
            let b = JsValue::new(c);
            let r = [a.add_fast(&b), b.sub_fast(&a), a.sub_fast(&b), a.mul_fast(&b), a.div_fast(&b), b.div_fast(&a)];
            let want = [xv + c, c - xv, xv - c, xv * c, xv / c, c / xv];
            let mut k = 0;
            while k < 6 {
                let v = r[k].as_ref().expect("verif: fast path on numbers is Some");
                assert!(matches!(read(v), R::Flt(f) if vm::same_value_bits(f, want[k].to_bits())), "verif: int ⊕ double constant is the IEEE operation in the right operand order");
                k += 1;
            }
            kani::cover!(x == i32::MIN, "i32::MIN");
            kani::cover!(x == 0, "zero");
            kani::cover!(true, "reaches end");
            forget(r);
            forget(b);
            forget(a);
        }
    };
}
// @harness h01b_arith_int_by_1p5 tier=never props=C01,C02
// @bounds double operand = 1.5 × ∀ x∈i32; operators +, − (both orders), *, / (both orders)
// @domain ∀ x∈i32 as Integer32; c = 1.5 as Float64
// @claim each mixed fast path returns a Float64 SameValue to the IEEE operation on f64::from(x) and c with the operands in the right order
// @stubs std::rt::thread_cleanup→{}
arith_int_by_double_const!(h01b_arith_int_by_1p5, 1.5);
// @harness h01b_arith_int_by_negzero tier=quick props=C01,C02
// @bounds double operand = −0.0 × ∀ x∈i32
// @domain ∀ x∈i32 as Integer32; c = −0.0
// @claim as h01b_arith_int_by_1p5 (signs of zero results and of x/−0 = ∓∞)
// @stubs std::rt::thread_cleanup→{}
arith_int_by_double_const!(h01b_arith_int_by_negzero, -0.0);
// @harness h01b_arith_int_by_nan tier=quick props=C01,C02
// @bounds double operand = NaN × ∀ x∈i32
// @domain ∀ x∈i32 as Integer32; c = NaN
// @claim every result is NaN (and reads back as the number NaN)
// @stubs std::rt::thread_cleanup→{}
arith_int_by_double_const!(h01b_arith_int_by_nan, f64::NAN);

// @harness h01a_non_numbers_decline tier=quick props=C01
// @bounds operands from {undefined, null, true, false} × ∀ Number (int32 or double)
// @domain for each non-Number primitive p, ∀ n: every *_fast(p, n) and *_fast(n, p)
// @claim the fast paths answer None for any non-Number operand (so the VM falls back to the coercing slow path and never treats a tag pattern as a number)
// @stubs std::rt::thread_cleanup→{}
#[kani::proof]
#[kani::stub(std::rt::thread_cleanup, noop)]
fn h01a_non_numbers_decline() {
    let k: u8 = kani::any();
    kani::assume(k < 4);
    let p = match k {
        0 => JsValue::undefined(),
        1 => JsValue::null(),
        2 => JsValue::new(true),
        _ => JsValue::new(false),
    };
    let ni: i32 = kani::any();
    let nf: u64 = kani::any();
    let n = if kani::any() { JsValue::new(ni) } else { JsValue::new(f64::from_bits(nf)) };
    assert!(p.add_fast(&n).is_none() && n.add_fast(&p).is_none(), "verif: add_fast declines non-numbers");
    assert!(p.sub_fast(&n).is_none() && n.sub_fast(&p).is_none(), "verif: sub_fast declines non-numbers");
    assert!(p.mul_fast(&n).is_none() && n.mul_fast(&p).is_none(), "verif: mul_fast declines non-numbers");
    assert!(p.div_fast(&n).is_none() && n.div_fast(&p).is_none(), "verif: div_fast declines non-numbers");
    assert!(p.rem_fast(&n).is_none() && n.rem_fast(&p).is_none(), "verif: rem_fast declines non-numbers");
    assert!(p.bitand_fast(&n).is_none() && n.bitor_fast(&p).is_none() && p.bitxor_fast(&n).is_none(), "verif: bitwise fast paths decline non-numbers");
    assert!(p.shl_fast(&n).is_none() && n.shr_fast(&p).is_none() && p.ushr_fast(&n).is_none(), "verif: shift fast paths decline non-numbers");
    assert!(p.lt_fast(&n).is_none() && n.le_fast(&p).is_none() && p.gt_fast(&n).is_none() && n.ge_fast(&p).is_none(), "verif: relational fast paths decline non-numbers");
    assert!(p.equals_fast(&n).is_none() && n.not_equals_fast(&p).is_none(), "verif: equality fast paths decline non-numbers");
    kani::cover!(k == 0, "undefined");
    kani::cover!(k == 2, "true");
    kani::cover!(true, "reaches end");
    forget(p);
    forget(n);
}
