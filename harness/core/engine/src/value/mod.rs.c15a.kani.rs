// C15 — integer element conversions (the `Element::from_js_value` kernels of all integer typed arrays
// and of DataView.set*) against the modular specification: ToIntK(x) = trunc(x) mod 2^K re-centred.
// `to_number` is stubbed to the identity on Numbers (the real one needs a Context: DESIGN 2.1).
use super::*;
use crate::verif_kani_lib_model as vm;
use std::mem::{MaybeUninit, forget};

fn noop() {}

/// Identity on Numbers; any other operand would need the real coercion and fails the harness.
fn stub_to_number(v: &JsValue, _c: &mut Context) -> JsResult<f64> {
    if let Some(i) = v.0.as_integer32() {
        Ok(f64::from(i))
    } else if let Some(f) = v.0.as_float64() {
        Ok(f)
    } else {
        panic!("verif: to_number stub reached with a non-Number")
    }
}

/// A Context that must never be dereferenced (the kernels only forward it to the stubbed to_number).
fn placeholder_ctx() -> &'static mut Context {
    let b: &'static mut MaybeUninit<Context> = Box::leak(Box::new(MaybeUninit::uninit()));
    // SAFETY: never read; see DESIGN 2.1 (a read shows up as a failed pointer/uninit check => inconclusive)
    unsafe { &mut *b.as_mut_ptr() }
}

fn any_number() -> (JsValue, u64) {
    if kani::any() {
        let i: i32 = kani::any();
        (JsValue::new(i), f64::from(i).to_bits())
    } else {
        let b: u64 = kani::any();
        (JsValue::new(f64::from_bits(b)), b)
    }
}

macro_rules! conv {
    ($name:ident, $method:ident, $t:ty, $k:expr) => {
        #[kani::proof]
        #[kani::stub(std::rt::thread_cleanup, noop)]
        #[kani::stub(JsValue::to_number, stub_to_number)]
        fn $name() {
            let (v, bits) = any_number();
            // @kf-point $name
            let ctx = placeholder_ctx();
            let r = v.$method(ctx);
            let got = match r {
                Ok(x) => x,
                Err(e) => {
                    forget(e);
                    panic!("verif: numeric conversion of a Number must not throw")
                }
            };
            let want = vm::trunc_mod_pow2(bits, $k) as $t;
            assert!(got == want, "verif: integer element conversion is trunc(x) modulo 2^k");
            kani::cover!(v.0.is_integer32(), "Integer32 operand");
            kani::cover!(((bits >> 52) & 0x7FF) >= 1023 + 63 && !vm::is_nan_bits(bits) && !vm::is_inf_bits(bits), "finite |x| >= 2^63");
            kani::cover!(bits >> 63 == 1 && want != 0, "negative operand, non-zero residue");
            kani::cover!(vm::is_nan_bits(bits), "NaN");
            kani::cover!(true, "reaches end");
            forget(v);
        }
    };
}

// @harness h15a_to_int8 tier=quick props=C15,C02
// @bounds none: ∀ int32 ∪ ∀ 2^64 double bit patterns
// @domain ∀ Number x (Integer32 or Float64)
// @claim to_int8(x) == (trunc(x) mod 2^8) as i8; NaN/±∞/±0 ↦ 0; never throws or panics
// @stubs std::rt::thread_cleanup→{}; JsValue::to_number→identity on Numbers (panics on anything else)
conv!(h15a_to_int8, to_int8, i8, 8);
// @harness h15a_to_uint8 tier=quick props=C15,C02
// @bounds none: ∀ int32 ∪ ∀ 2^64 double bit patterns
// @domain ∀ Number x
// @claim to_uint8(x) == trunc(x) mod 2^8
// @stubs std::rt::thread_cleanup→{}; JsValue::to_number→identity on Numbers
conv!(h15a_to_uint8, to_uint8, u8, 8);
// @harness h15a_to_int16 tier=quick props=C15,C02
// @bounds none: ∀ int32 ∪ ∀ 2^64 double bit patterns
// @domain ∀ Number x
// @claim to_int16(x) == (trunc(x) mod 2^16) as i16
// @stubs std::rt::thread_cleanup→{}; JsValue::to_number→identity on Numbers
conv!(h15a_to_int16, to_int16, i16, 16);
// @harness h15a_to_uint16 tier=quick props=C15,C02
// @bounds none: ∀ int32 ∪ ∀ 2^64 double bit patterns
// @domain ∀ Number x
// @claim to_uint16(x) == trunc(x) mod 2^16
// @stubs std::rt::thread_cleanup→{}; JsValue::to_number→identity on Numbers
conv!(h15a_to_uint16, to_uint16, u16, 16);
// @harness h15a_to_i32 tier=quick props=C15,C01,C02
// @bounds none: ∀ int32 ∪ ∀ 2^64 double bit patterns
// @domain ∀ Number x
// @claim to_i32(x) == ToInt32(x) (Integer32 fast path included)
// @stubs std::rt::thread_cleanup→{}; JsValue::to_number→identity on Numbers
conv!(h15a_to_i32, to_i32, i32, 32);
// @harness h15a_to_u32 tier=quick props=C15,C01,C02
// @bounds none: ∀ int32 ∪ ∀ 2^64 double bit patterns
// @domain ∀ Number x
// @claim to_u32(x) == ToUint32(x) (non-negative Integer32 fast path included)
// @stubs std::rt::thread_cleanup→{}; JsValue::to_number→identity on Numbers
conv!(h15a_to_u32, to_u32, u32, 32);

// @harness h15a_to_uint8_clamp tier=quick props=C15,C02
// @bounds none: ∀ int32 ∪ ∀ 2^64 double bit patterns
// @domain ∀ Number x
// @claim to_uint8_clamp(x) == clamp(round-half-to-even(x), 0, 255), NaN ↦ 0 (integer-arithmetic model on the significand)
// @stubs std::rt::thread_cleanup→{}; JsValue::to_number→identity on Numbers
#[kani::proof]
#[kani::stub(std::rt::thread_cleanup, noop)]
#[kani::stub(JsValue::to_number, stub_to_number)]
fn h15a_to_uint8_clamp() {
    let (v, bits) = any_number();
    let ctx = placeholder_ctx();
    let got = match v.to_uint8_clamp(ctx) {
        Ok(x) => x,
        Err(e) => {
            forget(e);
            panic!("verif: numeric conversion of a Number must not throw")
        }
    };
    assert!(got == vm::to_uint8_clamp(bits), "verif: ToUint8Clamp rounds half to even and clamps");
    kani::cover!(bits == 0x4004_0000_0000_0000, "2.5 (tie to even, down)");
    kani::cover!(bits == 0x400C_0000_0000_0000, "3.5 (tie to even, up)");
    kani::cover!(bits == 0x406F_D000_0000_0000, "254.5");
    kani::cover!(vm::is_nan_bits(bits), "NaN");
    kani::cover!(true, "reaches end");
    forget(v);
}
