// C14 — one IndexedProperties step from an arbitrary dense numeric state preserves the abstract
// index → value map (storage form is unobservable).  Symbolic payloads are int32 only; doubles come from an
// enumerated set; every JsValue-holding temporary is mem::forget-ed (DESIGN 2.3, 7).
use super::*;
use crate::property::PropertyDescriptorBuilder;
use std::mem::forget;

fn noop() {}

fn simple(v: JsValue) -> PropertyDescriptor {
    PropertyDescriptorBuilder::new().value(v).writable(true).enumerable(true).configurable(true).build()
}

/// Read element k as (present, is_int, int value, float bits, flags all true) without cloning pointer arms more than once.
fn read(ip: &IndexedProperties, k: u32) -> (bool, bool, i32, u64, bool) {
    match ip.get(k) {
        None => (false, false, 0, 0, false),
        Some(d) => {
            let flags = d.writable() == Some(true) && d.enumerable() == Some(true) && d.configurable() == Some(true);
            let r = match d.value() {
                Some(v) => match crate::value::verif_kani_mod_pubhelp::read_number(v) {
                    Some((is_int, i, fb)) => (true, is_int, i, fb, flags),
                    None => panic!("verif: dense numeric storage produced a non-Number"),
                },
                None => panic!("verif: dense element descriptor without a value"),
            };
            forget(d);
            r
        }
    }
}

macro_rules! i32_insert_int {
    ($name:ident, $n:expr, $key:expr) => {
        #[kani::proof]
        #[kani::unwind(6)]
        #[kani::stub(std::rt::thread_cleanup, noop)]
        fn $name() {
            const N: usize = $n;
            let old: [i32; N] = kani::any();
            let mut tv: ThinVec<i32> = ThinVec::new();
            let mut i = 0;
            while i < N {
                tv.push(old[i]);
                i += 1;
            }
            let mut ip = IndexedProperties::DenseI32(tv);
            let key: u32 = $key; // concrete: a symbolic key keeps the sparse hash-map arms in the formula
            let v: i32 = kani::any();
            let replaced = ip.insert(key, simple(JsValue::new(v)));
            assert!(replaced == ((key as usize) < N), "verif: insert reports whether the key was present");
            assert!(matches!(ip, IndexedProperties::DenseI32(_)), "verif: an int32 store keeps packed-int storage");
            let mut k = 0u32;
            while (k as usize) <= N {
                let (present, is_int, iv, _fb, flags) = read(&ip, k);
                let want_present = (k as usize) < N || k == key;
                assert!(present == want_present && ip.contains_key(k) == want_present, "verif: key set after insert");
                if want_present {
                    let want = if k == key { v } else { old[k as usize] };
                    assert!(is_int && iv == want && flags, "verif: element values after insert (others unchanged)");
                }
                k += 1;
            }
            kani::cover!(v == i32::MIN, "extreme value");
            kani::cover!(true, "reaches end");
            forget(ip);
        }
    };
}

// @harness h14a_i32_insert_int_n0 tier=quick props=C14
// @bounds packed-int storage of exactly 0 elements; key ≤ len; ∀ int32 value
// @domain state = DenseI32([]), op = insert(key, {value: Integer32(v), writable, enumerable, configurable})
// @claim insert returns "key was present"; storage stays packed ints; afterwards get(k)/contains_key(k) for every k ≤ len equal the abstract map with key ↦ v and all other elements unchanged, flags all true
// @stubs std::rt::thread_cleanup→{}
i32_insert_int!(h14a_i32_insert_int_n0, 0, 0);
// @harness h14a_i32_insert_int_n2_append tier=quick props=C14
// @bounds packed-int storage of exactly 2 elements with ∀ int32 contents; key = 2 (append); ∀ int32 value
// @domain state = DenseI32([a,b]) ∀ a,b; op = insert(2, simple data descriptor with Integer32(v))
// @claim as h14a_i32_insert_int_n0
// @stubs std::rt::thread_cleanup→{}
i32_insert_int!(h14a_i32_insert_int_n2_append, 2, 2);
// @harness h14a_i32_insert_int_n2_overwrite0 tier=quick props=C14
// @bounds packed-int storage of exactly 2 elements with ∀ int32 contents; key = 0 (overwrite); ∀ int32 value
// @domain state = DenseI32([a,b]) ∀ a,b; op = insert(0, …Integer32(v))
// @claim as h14a_i32_insert_int_n0 (returns true; element 1 unchanged)
// @stubs std::rt::thread_cleanup→{}
i32_insert_int!(h14a_i32_insert_int_n2_overwrite0, 2, 0);
// @harness h14a_i32_insert_int_n2_overwrite1 tier=quick props=C14
// @bounds as above with key = 1
// @domain state = DenseI32([a,b]); op = insert(1, …Integer32(v))
// @claim as h14a_i32_insert_int_n0
// @stubs std::rt::thread_cleanup→{}
i32_insert_int!(h14a_i32_insert_int_n2_overwrite1, 2, 1);

macro_rules! i32_insert_float {
    ($name:ident, $n:expr, $key:expr, $f:expr) => {
        #[kani::proof]
        #[kani::unwind(6)]
        #[kani::stub(std::rt::thread_cleanup, noop)]
        fn $name() {
            const N: usize = $n;
            let old: [i32; N] = kani::any();
            let mut tv: ThinVec<i32> = ThinVec::new();
            let mut i = 0;
            while i < N {
                tv.push(old[i]);
                i += 1;
            }
            let mut ip = IndexedProperties::DenseI32(tv);
            let key: u32 = $key;
            let f: f64 = $f;
            let replaced = ip.insert(key, simple(JsValue::new(f)));
            assert!(replaced == ((key as usize) < N), "verif: insert reports whether the key was present");
            assert!(matches!(ip, IndexedProperties::DenseF64(_)), "verif: a non-int32 Number store moves to packed doubles");
            let mut k = 0u32;
            while (k as usize) <= N {
                let (present, is_int, iv, fb, flags) = read(&ip, k);
                let want_present = (k as usize) < N || k == key;
                assert!(present == want_present && ip.contains_key(k) == want_present, "verif: key set after insert");
                if want_present {
                    // SameValue as a Number: ints may come back as Float64 holding the same integer
                    if k == key {
                        let same = !is_int && (fb == f.to_bits() || (f.is_nan() && f64::from_bits(fb).is_nan()));
                        assert!(same && flags, "verif: stored double reads back SameValue (−0 and NaN included)");
                    } else {
                        let want = f64::from(old[k as usize]);
                        let got = if is_int { f64::from(iv) } else { f64::from_bits(fb) };
                        assert!(got.to_bits() == want.to_bits() && flags, "verif: int elements survive the int→double transition exactly");
                    }
                }
                k += 1;
            }
            kani::cover!(true, "reaches end");
            forget(ip);
        }
    };
}

// @harness h14a_i32_insert_half_n2 tier=never props=C14
// @bounds packed-int storage of exactly 2 elements ∀ int32 contents; key = 2 (append); value = 0.5
// @domain state = DenseI32([a,b]); op = insert(key, simple data descriptor with Float64(0.5))
// @claim storage becomes packed doubles; every old int reads back as the same Number; the new element is 0.5; key set and flags as in the abstract map
// @stubs std::rt::thread_cleanup→{}
i32_insert_float!(h14a_i32_insert_half_n2, 2, 2, 0.5);
// @harness h14a_i32_insert_negzero_n2 tier=never props=C14
// @bounds as above with key = 0 (overwrite); value = −0.0
// @domain state = DenseI32([a,b]); op = insert(key, … Float64(−0.0))
// @claim −0 is not stored as the int 0 (it must read back as −0)
// @stubs std::rt::thread_cleanup→{}
i32_insert_float!(h14a_i32_insert_negzero_n2, 2, 0, -0.0);
// @harness h14a_i32_insert_nan_n1 tier=never props=C14
// @bounds packed-int storage of exactly 1 element; key = 1 (append); value = NaN
// @domain state = DenseI32([a]); op = insert(key, … Float64(NaN))
// @claim NaN reads back as NaN, the old element is unchanged
// @stubs std::rt::thread_cleanup→{}
i32_insert_float!(h14a_i32_insert_nan_n1, 1, 1, f64::NAN);

macro_rules! i32_remove {
    ($name:ident, $key:expr) => {
        #[kani::proof]
        #[kani::unwind(6)]
        #[kani::stub(std::rt::thread_cleanup, noop)]
        fn $name() {
            let old: [i32; 2] = kani::any();
            let mut tv: ThinVec<i32> = ThinVec::new();
            tv.push(old[0]);
            tv.push(old[1]);
            let mut ip = IndexedProperties::DenseI32(tv);
            let key: u32 = $key;
            let removed = ip.remove(key);
            assert!(removed == (key == 1), "verif: remove reports whether the key was present");
            let (p0, i0, v0, _f0, fl0) = read(&ip, 0);
            assert!(p0 && i0 && v0 == old[0] && fl0, "verif: element 0 untouched by remove");
            let (p1, i1, v1, _f1, _fl1) = read(&ip, 1);
            if key == 1 {
                assert!(!p1 && !ip.contains_key(1), "verif: removed element is gone");
            } else {
                assert!(p1 && i1 && v1 == old[1], "verif: absent-key remove changes nothing");
            }
            kani::cover!(true, "reaches end");
            forget(ip);
        }
    };
}
// @harness h14a_i32_remove_last_n2 tier=quick props=C14
// @bounds packed-int storage of exactly 2 elements ∀ int32 contents; key = 1 (the last element)
// @domain state = DenseI32([a,b]); op = remove(1)
// @claim returns true, pops the last element, element 0 unchanged, storage stays packed
// @stubs std::rt::thread_cleanup→{}
i32_remove!(h14a_i32_remove_last_n2, 1);
// @harness h14a_i32_remove_absent_n2 tier=quick props=C14
// @bounds as above with key = 3 (absent)
// @domain state = DenseI32([a,b]); op = remove(3)
// @claim returns false and changes nothing
// @stubs std::rt::thread_cleanup→{}
i32_remove!(h14a_i32_remove_absent_n2, 3);

// @harness h14a_push_dense_n1 tier=quick props=C14
// @bounds packed-int storage of exactly 1 element ∀ int32; pushed value ∈ {∀ int32, 0.5}
// @domain state = DenseI32([a]); op = push_dense(Integer32(v)) | push_dense(Float64(0.5))
// @claim push_dense appends at index len and returns true; ints keep packed-int storage, a double moves to packed doubles with the old element preserved
// @stubs std::rt::thread_cleanup→{}
#[kani::proof]
#[kani::unwind(6)]
#[kani::stub(std::rt::thread_cleanup, noop)]
fn h14a_push_dense_n1() {
    let a: i32 = kani::any();
    let v: i32 = kani::any();
    let mut tv: ThinVec<i32> = ThinVec::new();
    tv.push(a);
    let mut ip = IndexedProperties::DenseI32(tv);
    let val = JsValue::new(v);
    assert!(ip.push_dense(&val), "verif: push_dense on dense storage succeeds");
    forget(val);
    let (p0, i0, v0, _f, _fl) = read(&ip, 0);
    let (p1, i1, v1, _f1, fl1) = read(&ip, 1);
    assert!(p0 && i0 && v0 == a && p1 && i1 && v1 == v && fl1 && !ip.contains_key(2), "verif: int push appends");
    let half = JsValue::new(0.5f64);
    assert!(ip.push_dense(&half), "verif: push_dense(double) succeeds");
    forget(half);
    assert!(matches!(ip, IndexedProperties::DenseF64(_)), "verif: double push moves to packed doubles");
    let (q0, j0, w0, g0, _fl0) = read(&ip, 0);
    let got0 = if j0 { f64::from(w0) } else { f64::from_bits(g0) };
    assert!(q0 && got0.to_bits() == f64::from(a).to_bits(), "verif: old element preserved across the transition");
    let (q2, j2, _w2, g2, _fl2) = read(&ip, 2);
    assert!(q2 && !j2 && g2 == 0.5f64.to_bits(), "verif: pushed double is at index 2");
    kani::cover!(true, "reaches end");
    forget(ip);
}
