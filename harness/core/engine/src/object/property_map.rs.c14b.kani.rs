// C14 — `PropertyMap::set_dense_property` (the VM's `a[i] = v` fast path for in-range indices of dense arrays)
// from a packed-int state: whatever Number is stored, the element reads back as the SAME Number
// (−0 stays −0, NaN stays NaN, fractions and out-of-int32 values survive) and the other elements keep their
// values, whichever storage form the store leaves the array in.  The PropertyMap is partially initialised:
// only `indexed_properties` is written; `shape`/`storage` are never touched by these kernels.
use super::*;
use std::mem::{MaybeUninit, forget};
use std::ptr::addr_of_mut;

fn noop() {}

fn map_with(ip: IndexedProperties) -> &'static mut PropertyMap {
    let slot: &'static mut MaybeUninit<PropertyMap> = Box::leak(Box::new(MaybeUninit::uninit()));
    let p = slot.as_mut_ptr();
    // SAFETY: writing one field of an uninitialised struct through a raw pointer; the kernels under test
    // read no other field (a read would fail a CBMC check => inconclusive)
    unsafe {
        addr_of_mut!((*p).indexed_properties).write(ip);
        &mut *p
    }
}

/// element k as f64 bits (ints widened), None if absent
fn elem_bits(m: &PropertyMap, k: u32) -> Option<u64> {
    match m.get_dense_property(k) {
        None => None,
        Some(v) => {
            let r = match crate::value::verif_kani_mod_pubhelp::read_number(&v) {
                Some((true, i, _)) => f64::from(i).to_bits(),
                Some((false, _, fb)) => fb,
                None => panic!("verif: dense numeric storage produced a non-Number"),
            };
            forget(v);
            Some(r)
        }
    }
}

fn same_value(a: u64, b: u64) -> bool {
    let an = f64::from_bits(a).is_nan();
    let bn = f64::from_bits(b).is_nan();
    (an && bn) || a == b
}

macro_rules! set_dense_float {
    ($name:ident, $idx:expr) => {
        #[kani::proof]
        #[kani::unwind(6)]
        #[kani::stub(std::rt::thread_cleanup, noop)]
        fn $name() {
            let old: [i32; 2] = kani::any();
            let mut tv: ThinVec<i32> = ThinVec::new();
            tv.push(old[0]);
            tv.push(old[1]);
            let m = map_with(IndexedProperties::DenseI32(tv));
            let bits: u64 = kani::any();
            let val = JsValue::new(f64::from_bits(bits));
            // @kf-point $name
            let ok = m.set_dense_property($idx, &val);
            forget(val);
            assert!(ok, "verif: an in-range dense store succeeds");
            let got = elem_bits(m, $idx);
            assert!(got.is_some() && same_value(got.unwrap(), bits), "verif: the stored Number reads back as the same value (−0, NaN, fractions included)");
            let other = 1 - $idx;
            let o = elem_bits(m, other);
            assert!(o == Some(f64::from(old[other as usize]).to_bits()), "verif: the other element keeps its value across a storage transition");
            assert!(elem_bits(m, 2).is_none(), "verif: length unchanged");
            kani::cover!(bits == 0x8000_0000_0000_0000, "-0");
            kani::cover!(bits == 0x4008_0000_0000_0000, "3.0 (integral double)");
            kani::cover!(bits == 0x3FE0_0000_0000_0000, "0.5");
            kani::cover!(f64::from_bits(bits).is_nan(), "NaN");
            kani::cover!(true, "reaches end");
        }
    };
}

// @harness h14b_set_dense_i32_float_0 tier=quick props=C14
// @bounds packed-int storage of exactly 2 elements ∀ int32 contents; index 0; ∀ 2^64 double bit patterns as the stored value
// @domain state = DenseI32([a,b]); op = set_dense_property(0, Float64(x))
// @claim returns true; element 0 reads back SameValue to x (−0 is not stored as the int 0); element 1 unchanged; length unchanged — in whatever storage form results
// @stubs std::rt::thread_cleanup→{}
set_dense_float!(h14b_set_dense_i32_float_0, 0u32);
// @harness h14b_set_dense_i32_float_1 tier=quick props=C14
// @bounds as above with index 1
// @domain state = DenseI32([a,b]); op = set_dense_property(1, Float64(x))
// @claim as h14b_set_dense_i32_float_0
// @stubs std::rt::thread_cleanup→{}
set_dense_float!(h14b_set_dense_i32_float_1, 1u32);

// @harness h14b_set_dense_i32_int tier=quick props=C14
// @bounds packed-int storage of exactly 2 elements; index ∈ {0, 2}; ∀ int32 value
// @domain state = DenseI32([a,b]); op = set_dense_property(0 | 2, Integer32(v))
// @claim index 0: true, element 0 = v, element 1 unchanged, storage stays packed ints; index 2 (out of range): false and nothing changes
// @stubs std::rt::thread_cleanup→{}
#[kani::proof]
#[kani::unwind(6)]
#[kani::stub(std::rt::thread_cleanup, noop)]
fn h14b_set_dense_i32_int() {
    let old: [i32; 2] = kani::any();
    let mut tv: ThinVec<i32> = ThinVec::new();
    tv.push(old[0]);
    tv.push(old[1]);
    let m = map_with(IndexedProperties::DenseI32(tv));
    let v: i32 = kani::any();
    let val = JsValue::new(v);
    assert!(!m.set_dense_property(2, &val), "verif: an out-of-range dense store is refused");
    assert!(elem_bits(m, 0) == Some(f64::from(old[0]).to_bits()) && elem_bits(m, 1) == Some(f64::from(old[1]).to_bits()) && elem_bits(m, 2).is_none(), "verif: a refused store changes nothing");
    assert!(m.set_dense_property(0, &val), "verif: an in-range dense store succeeds");
    forget(val);
    assert!(matches!(m.indexed_properties, IndexedProperties::DenseI32(_)), "verif: an int32 store keeps packed-int storage");
    assert!(elem_bits(m, 0) == Some(f64::from(v).to_bits()) && elem_bits(m, 1) == Some(f64::from(old[1]).to_bits()), "verif: element values after the store");
    kani::cover!(true, "reaches end");
}

// @harness h14b_set_dense_f64 tier=quick props=C14
// @bounds packed-double storage of exactly 2 elements ∀ contents; index 1; ∀ Number value (int32 or any double)
// @domain state = DenseF64([x,y]); op = set_dense_property(1, Integer32(v) | Float64(z))
// @claim returns true; element 1 reads back SameValue to the stored Number; element 0 unchanged
// @stubs std::rt::thread_cleanup→{}
#[kani::proof]
#[kani::unwind(6)]
#[kani::stub(std::rt::thread_cleanup, noop)]
fn h14b_set_dense_f64() {
    let xb: u64 = kani::any();
    let yb: u64 = kani::any();
    let mut tv: ThinVec<f64> = ThinVec::new();
    tv.push(f64::from_bits(xb));
    tv.push(f64::from_bits(yb));
    let m = map_with(IndexedProperties::DenseF64(tv));
    let (val, want) = if kani::any() {
        let v: i32 = kani::any();
        (JsValue::new(v), f64::from(v).to_bits())
    } else {
        let zb: u64 = kani::any();
        (JsValue::new(f64::from_bits(zb)), zb)
    };
    assert!(m.set_dense_property(1, &val), "verif: an in-range dense store succeeds");
    forget(val);
    let got = elem_bits(m, 1);
    assert!(got.is_some() && same_value(got.unwrap(), want), "verif: the stored Number reads back as the same value");
    let o = elem_bits(m, 0);
    assert!(o.is_some() && same_value(o.unwrap(), xb), "verif: the other element keeps its value");
    kani::cover!(want == 0x8000_0000_0000_0000, "-0");
    kani::cover!(true, "reaches end");
}
