// Shared reference models (pure integer arithmetic over IEEE-754 bit patterns).
// Injected as `crate::verif_kani_lib_model`; used by the C01/C12/C13/C15 harnesses.
// Nothing in here calls into boa: these functions are the *oracle* side.

/// Decomposition of a finite, non-zero f64: value = (-1)^neg * m * 2^e, m < 2^53.
#[derive(Clone, Copy)]
pub(crate) struct Dec {
    pub neg: bool,
    pub m: u64,
    pub e: i32,
}

pub(crate) const fn is_nan_bits(bits: u64) -> bool {
    (bits & 0x7FF0_0000_0000_0000) == 0x7FF0_0000_0000_0000 && (bits & 0x000F_FFFF_FFFF_FFFF) != 0
}
pub(crate) const fn is_inf_bits(bits: u64) -> bool {
    (bits & 0x7FFF_FFFF_FFFF_FFFF) == 0x7FF0_0000_0000_0000
}
pub(crate) const fn is_zero_bits(bits: u64) -> bool {
    (bits & 0x7FFF_FFFF_FFFF_FFFF) == 0
}

/// None for NaN, infinities and zeros.
pub(crate) const fn decode(bits: u64) -> Option<Dec> {
    let exp = ((bits >> 52) & 0x7FF) as i32;
    let frac = bits & 0x000F_FFFF_FFFF_FFFF;
    let neg = (bits >> 63) == 1;
    if exp == 0x7FF {
        return None;
    }
    if exp == 0 {
        if frac == 0 {
            return None;
        }
        return Some(Dec { neg, m: frac, e: -1074 });
    }
    Some(Dec { neg, m: frac | (1u64 << 52), e: exp - 1075 })
}

/// ECMAScript `ToIntK`/`ToUintK` bit pattern: trunc(x) modulo 2^k, as the low k bits (k <= 64);
/// NaN, infinities, zeros -> 0.
pub(crate) const fn trunc_mod_pow2(bits: u64, k: u32) -> u64 {
    let mask: u64 = if k >= 64 { u64::MAX } else { (1u64 << k) - 1 };
    let d = match decode(bits) {
        None => return 0,
        Some(d) => d,
    };
    let low: u64 = if d.e >= 0 {
        if d.e >= 64 {
            0
        } else {
            // low 64 bits of m * 2^e
            d.m << (d.e as u32)
        }
    } else if d.e <= -64 {
        0
    } else {
        d.m >> ((-d.e) as u32)
    };
    let low = low & mask;
    let r = if d.neg { low.wrapping_neg() } else { low };
    r & mask
}

pub(crate) const fn to_int32(bits: u64) -> i32 {
    trunc_mod_pow2(bits, 32) as u32 as i32
}
pub(crate) const fn to_uint32(bits: u64) -> u32 {
    trunc_mod_pow2(bits, 32) as u32
}

/// Some(i) iff the double is an integer in the int32 range and is not -0.
pub(crate) const fn exact_i32(bits: u64) -> Option<i32> {
    if bits == 0 {
        return Some(0);
    }
    let d = match decode(bits) {
        None => return None, // NaN, inf, -0 (and +0 handled above)
        Some(d) => d,
    };
    // magnitude as integer, if integral and < 2^32
    let mag: u64 = if d.e >= 0 {
        if d.e > 11 {
            return None; // >= 2^63
        }
        d.m << (d.e as u32)
    } else {
        let s = (-d.e) as u32;
        if s >= 64 {
            return None;
        }
        if d.m & ((1u64 << s) - 1) != 0 {
            return None; // fractional part
        }
        d.m >> s
    };
    if d.neg {
        if mag > 0x8000_0000 {
            None
        } else {
            Some((mag as i64).wrapping_neg() as i32)
        }
    } else if mag > 0x7FFF_FFFF {
        None
    } else {
        Some(mag as i32)
    }
}

/// Exact conversion of an i64 with |v| < 2^53 to f64 bits, without using the FPU.
pub(crate) const fn i64_to_f64_bits_exact(v: i64) -> u64 {
    if v == 0 {
        return 0;
    }
    let neg = v < 0;
    let mag = v.unsigned_abs();
    let lz = mag.leading_zeros();
    let top = 63 - lz; // position of the leading one
    // requires top <= 52 for exactness (caller guarantees |v| < 2^53)
    let frac = (mag << (52 - top)) & 0x000F_FFFF_FFFF_FFFF;
    let exp = (top as u64) + 1023;
    ((neg as u64) << 63) | (exp << 52) | frac
}

/// SameValue on Numbers given as f64 bit patterns (all NaNs are the same value; -0 != +0).
pub(crate) const fn same_value_bits(a: u64, b: u64) -> bool {
    if is_nan_bits(a) && is_nan_bits(b) {
        return true;
    }
    a == b
}

/// Ordering key of a non-NaN double: a < b (IEEE, -0 == +0) iff key(a) < key(b).
pub(crate) const fn order_key(bits: u64) -> i64 {
    let mag = (bits & 0x7FFF_FFFF_FFFF_FFFF) as i64;
    if (bits >> 63) == 1 { -mag } else { mag }
}
/// IEEE `<` on bit patterns, integer-only.
pub(crate) const fn lt_bits(a: u64, b: u64) -> bool {
    !is_nan_bits(a) && !is_nan_bits(b) && order_key(a) < order_key(b)
}
/// IEEE `==` on bit patterns, integer-only (NaN != NaN, -0 == +0).
pub(crate) const fn eq_bits(a: u64, b: u64) -> bool {
    !is_nan_bits(a) && !is_nan_bits(b) && order_key(a) == order_key(b)
}

/// ECMAScript ToUint8Clamp on a double bit pattern: clamp to [0,255], round half to even.
pub(crate) const fn to_uint8_clamp(bits: u64) -> u8 {
    if is_nan_bits(bits) {
        return 0;
    }
    if (bits >> 63) == 1 || is_zero_bits(bits) {
        return 0; // negative (incl. -inf, -0) or zero
    }
    let d = match decode(bits) {
        None => return 255, // +inf
        Some(d) => d,
    };
    if d.e >= 0 {
        return 255; // >= 2^52
    }
    let s = (-d.e) as u32;
    if s >= 64 {
        return 0; // < 2^-11
    }
    let f = d.m >> s;
    if f >= 255 {
        return 255;
    }
    let frac = d.m & ((1u64 << s) - 1);
    let half = 1u64 << (s - 1);
    let f = f as u8;
    if frac > half {
        f + 1
    } else if frac < half {
        f
    } else {
        f + (f & 1)
    }
}
