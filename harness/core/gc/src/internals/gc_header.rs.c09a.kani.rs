// C09 — GcHeader: count/mark-bit packing and the rootedness predicate as a one-step inductive
// invariant.  Inv(h) := non_root_count(h) <= ref_count(h) <= 2^31-1.  One step from an ARBITRARY
// state satisfying Inv covers operation histories of any length.
use super::*;

fn mk(rc: u32, raw: u32) -> GcHeader {
    GcHeader { ref_count: Cell::new(rc), non_root_count: Cell::new(raw) }
}
fn inv(h: &GcHeader) -> bool {
    (h.non_root_count.get() & NON_ROOTS_MASK) <= h.ref_count.get() && h.ref_count.get() <= NON_ROOTS_MAX
}
fn pre() -> (u32, u32, GcHeader) {
    let rc: u32 = kani::any();
    let raw: u32 = kani::any();
    let h = mk(rc, raw);
    kani::assume(inv(&h));
    (rc, raw, h)
}

// @harness h09a_observers tier=quick props=C09
// @bounds none: ∀ raw (ref_count, non_root_count) u32 pairs satisfying Inv
// @domain ∀ rc, raw ∈ u32 with (raw & 0x7FFF_FFFF) ≤ rc ≤ 2^31−1
// @claim ref_count()=rc; non_root_count()=raw&0x7FFFFFFF (mark bit never leaks into the count); is_marked() ⇔ top bit; is_rooted() ⇔ non_root_count < ref_count; GcHeader::new() is (1,0,unmarked) and satisfies Inv
#[kani::proof]
fn h09a_observers() {
    let (rc, raw, h) = pre();
    assert!(h.ref_count() == rc, "verif: ref_count reads the handle count");
    assert!(h.non_root_count() == raw & 0x7FFF_FFFF, "verif: non_root_count excludes the mark bit");
    assert!(h.is_marked() == (raw >> 31 == 1), "verif: is_marked reads only the top bit");
    assert!(h.is_rooted() == ((raw & 0x7FFF_FFFF) < rc), "verif: rooted iff handles outside the heap exist");
    let n = GcHeader::new();
    assert!(n.ref_count() == 1 && n.non_root_count() == 0 && !n.is_marked() && n.is_rooted() && inv(&n), "verif: fresh header");
    kani::cover!(raw >> 31 == 1 && (raw & 0x7FFF_FFFF) == rc && rc > 0, "marked and exactly unrooted");
    kani::cover!(rc == NON_ROOTS_MAX, "saturated ref count");
    kani::cover!(true, "reaches end");
}

// @harness h09a_inc_ref tier=quick props=C09,C02
// @bounds none
// @domain ∀ state with Inv and rc < 2^31−1
// @claim inc_ref_count: rc' = rc+1, non_root_count and mark unchanged, Inv preserved, no panic
#[kani::proof]
fn h09a_inc_ref() {
    let (rc, raw, h) = pre();
    kani::assume(rc < NON_ROOTS_MAX);
    h.inc_ref_count();
    assert!(h.ref_count.get() == rc + 1, "verif: inc_ref_count adds exactly one");
    assert!(h.non_root_count.get() == raw, "verif: inc_ref_count leaves non_root_count and mark alone");
    assert!(inv(&h), "verif: inc_ref_count preserves Inv");
    kani::cover!(rc == NON_ROOTS_MAX - 1, "reaching the cap");
    kani::cover!(true, "reaches end");
}

// @harness h09a_inc_ref_saturated_panics tier=quick props=C09
// @bounds none
// @domain ∀ raw, rc = 2^31−1
// @claim inc_ref_count panics instead of letting ref_count exceed the 31-bit range shared with the mark bit
#[kani::proof]
#[kani::should_panic]
fn h09a_inc_ref_saturated_panics() {
    let raw: u32 = kani::any();
    let h = mk(NON_ROOTS_MAX, raw);
    h.inc_ref_count();
}

// @harness h09a_dec_ref tier=quick props=C09,C02
// @bounds none
// @domain ∀ state with Inv and rc ≥ 1 (a handle exists to be dropped)
// @claim dec_ref_count: rc' = rc−1, non_root_count and mark unchanged, no underflow/panic; Inv preserved whenever the object was rooted (rc > non_root_count)
#[kani::proof]
fn h09a_dec_ref() {
    let (rc, raw, h) = pre();
    kani::assume(rc >= 1);
    let rooted = h.is_rooted();
    h.dec_ref_count();
    assert!(h.ref_count.get() == rc - 1, "verif: dec_ref_count removes exactly one");
    assert!(h.non_root_count.get() == raw, "verif: dec_ref_count leaves non_root_count and mark alone");
    if rooted {
        assert!(inv(&h), "verif: dropping a handle of a rooted object preserves Inv");
    }
    kani::cover!(rooted && !h.is_rooted(), "last outside handle dropped");
    kani::cover!(true, "reaches end");
}

// @harness h09a_inc_non_root tier=quick props=C09,C02
// @bounds none
// @domain ∀ state with Inv
// @claim inc_non_root_count: count' = min(count+1, rc) (saturates at ref_count, so is_rooted can never under-report), mark bit unchanged, ref_count unchanged, Inv preserved, no panic/debug-assert
#[kani::proof]
fn h09a_inc_non_root() {
    let (rc, raw, h) = pre();
    let c = raw & 0x7FFF_FFFF;
    h.inc_non_root_count();
    let c2 = h.non_root_count.get() & 0x7FFF_FFFF;
    assert!(c2 == if c < rc { c + 1 } else { c }, "verif: inc_non_root_count adds one, saturating at ref_count");
    assert!(h.non_root_count.get() >> 31 == raw >> 31, "verif: inc_non_root_count keeps the mark bit");
    assert!(h.ref_count.get() == rc, "verif: inc_non_root_count leaves ref_count alone");
    assert!(inv(&h), "verif: inc_non_root_count preserves Inv");
    kani::cover!(c == rc && rc > 0, "saturated");
    kani::cover!(c + 1 == rc && raw >> 31 == 1, "becomes unrooted while marked");
    kani::cover!(true, "reaches end");
}

// @harness h09a_mark_ops tier=quick props=C09,C02
// @bounds none
// @domain ∀ state with Inv
// @claim mark/unmark change only the top bit; reset_non_root_count zeroes the count and keeps the mark; each preserves ref_count and Inv
#[kani::proof]
fn h09a_mark_ops() {
    let (rc, raw, h) = pre();
    h.mark();
    assert!(h.non_root_count.get() == raw | 0x8000_0000 && h.ref_count.get() == rc, "verif: mark sets only the mark bit");
    assert!(h.is_marked() && inv(&h), "verif: mark postcondition");
    h.unmark();
    assert!(h.non_root_count.get() == raw & 0x7FFF_FFFF && h.ref_count.get() == rc, "verif: unmark clears only the mark bit");
    assert!(!h.is_marked() && inv(&h), "verif: unmark postcondition");
    let g = mk(rc, raw);
    g.reset_non_root_count();
    assert!(g.non_root_count.get() == raw & 0x8000_0000 && g.ref_count.get() == rc, "verif: reset zeroes the count, keeps the mark");
    assert!(g.non_root_count() == 0 && inv(&g), "verif: reset postcondition");
    assert!(g.is_rooted() == (rc > 0), "verif: after reset an object with handles is rooted");
    kani::cover!(raw >> 31 == 1, "initially marked");
    kani::cover!(true, "reaches end");
}
