// C09 — GcRefCell borrow flag: shared XOR exclusive access, from an arbitrary flag value.
use super::*;

fn cell_with(flag: usize) -> GcRefCell<u32> {
    let c = GcRefCell::new(7u32);
    c.borrow.set(BorrowFlag(flag));
    c
}

// @harness h09b_try_borrow tier=quick props=C09,C02
// @bounds none: ∀ usize flag values except the single overflow value usize::MAX−1 (separate harness)
// @domain ∀ x∈usize, x ≠ usize::MAX−1: cell with borrow flag x
// @claim try_borrow fails iff x==WRITING (flag untouched); otherwise flag becomes x+1, the guard derefs to the value, a mutable borrow is refused while it lives, and dropping the guard restores x
#[kani::proof]
fn h09b_try_borrow() {
    let x: usize = kani::any();
    kani::assume(x != usize::MAX - 1);
    let c = cell_with(x);
    match c.try_borrow() {
        Err(_) => {
            assert!(x == WRITING, "verif: shared borrow is refused only while writing");
            assert!(c.borrow.get().0 == x, "verif: a refused borrow leaves the flag alone");
        }
        Ok(g) => {
            assert!(x != WRITING, "verif: shared borrow is never granted while writing");
            assert!(c.borrow.get().0 == x + 1, "verif: shared borrow increments the reader count");
            assert!(*g == 7, "verif: guard derefs to the value");
            assert!(c.try_borrow_mut().is_err(), "verif: no exclusive borrow while a shared guard lives");
            drop(g);
            assert!(c.borrow.get().0 == x, "verif: dropping the guard restores the reader count");
        }
    }
    kani::cover!(x == 0, "unused");
    kani::cover!(x == WRITING, "writing");
    kani::cover!(x == usize::MAX - 2, "last grantable reader");
    kani::cover!(true, "reaches end");
}

// @harness h09b_reader_overflow_panics tier=quick props=C09
// @bounds none
// @domain flag = usize::MAX−1 (one more reader would alias the WRITING pattern)
// @claim try_borrow panics instead of wrapping the reader count into WRITING
#[kani::proof]
#[kani::should_panic]
fn h09b_reader_overflow_panics() {
    let c = cell_with(usize::MAX - 1);
    let g = c.try_borrow();
    std::mem::forget(g);
}

// @harness h09b_try_borrow_mut tier=quick props=C09,C02
// @bounds none
// @domain ∀ x∈usize: cell with borrow flag x
// @claim try_borrow_mut succeeds iff x==UNUSED; then flag==WRITING, both kinds of borrow are refused while the guard lives, writes through the guard are visible, and dropping it restores UNUSED
#[kani::proof]
fn h09b_try_borrow_mut() {
    let x: usize = kani::any();
    let c = cell_with(x);
    match c.try_borrow_mut() {
        Err(_) => {
            assert!(x != UNUSED, "verif: exclusive borrow is refused only when borrowed");
            assert!(c.borrow.get().0 == x, "verif: a refused borrow leaves the flag alone");
        }
        Ok(mut g) => {
            assert!(x == UNUSED, "verif: exclusive borrow only from UNUSED");
            assert!(c.borrow.get().0 == WRITING, "verif: exclusive borrow sets WRITING");
            assert!(c.try_borrow().is_err() && c.try_borrow_mut().is_err(), "verif: nothing else while writing");
            *g = 9;
            drop(g);
            assert!(c.borrow.get().0 == UNUSED, "verif: dropping the exclusive guard restores UNUSED");
            assert!(*c.try_borrow().unwrap() == 9, "verif: the write is visible");
        }
    }
    kani::cover!(x == 0, "unused");
    kani::cover!(x == 1, "one reader");
    kani::cover!(true, "reaches end");
}
