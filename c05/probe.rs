// Native probe (no cfg): lets the driver run the REAL StrengthReduction pass on `ident <op> <int literal>`
// and report what it did.  Injected as a child module of optimizer/pass/strength_reduction.rs.
use super::*;
use boa_ast::{
    Position, Span,
    expression::{Identifier, literal::{Literal, LiteralKind}},
};
use boa_interner::Sym;

impl crate::optimizer::OptimizerOptions {
    /// `op` ∈ {"Div","Exp"}; returns "Keep" | "Modified" | "Replace <op'> Num <f64 bits>" | "Replace <op'> Int <v>" |
    /// "Replace <op'> SameOperand 0" | "Replace Other x 0".
    #[must_use]
    pub fn verif_sr_probe(op: &str, lit: i32, lhs_kind: &str, lit_on_left: bool) -> String {
        let span = Span::new(Position::new(1, 1), Position::new(1, 2));
        let aop = match op {
            "Div" => ArithmeticOp::Div,
            "Exp" => ArithmeticOp::Exp,
            "Mul" => ArithmeticOp::Mul,
            "Sub" => ArithmeticOp::Sub,
            "Mod" => ArithmeticOp::Mod,
            _ => ArithmeticOp::Add,
        };
        let other: Expression = match lhs_kind {
                "Ident" => Identifier::new(Sym::ARGUMENTS, span).into(),
                "Int" => Literal::new(LiteralKind::Int(7), span).into(),
                "Num" => Literal::new(LiteralKind::Num(1.5), span).into(),
                "BigInt" => Literal::new(LiteralKind::BigInt(Box::new(3.into())), span).into(),
                "Str" => Literal::new(LiteralKind::String(Sym::ARGUMENTS), span).into(),
                _ => Literal::new(LiteralKind::Null, span).into(),
            };
        let l: Expression = Literal::new(LiteralKind::Int(lit), span).into();
        let mut e: Expression = if lit_on_left {
            Binary::new(BinaryOp::Arithmetic(aop), l, other).into()
        } else {
            Binary::new(BinaryOp::Arithmetic(aop), other, l).into()
        };
        match StrengthReduction::reduce_expression(&mut e) {
            PassAction::Keep => "Keep".into(),
            PassAction::Modified => "Modified".into(),
            PassAction::Replace(Expression::Binary(b)) => {
                let name = match b.op() {
                    BinaryOp::Arithmetic(ArithmeticOp::Mul) => "Mul",
                    BinaryOp::Arithmetic(ArithmeticOp::Div) => "Div",
                    BinaryOp::Arithmetic(ArithmeticOp::Add) => "Add",
                    BinaryOp::Arithmetic(ArithmeticOp::Sub) => "Sub",
                    _ => "OtherOp",
                };
                if b.rhs() == b.lhs() {
                    return format!("Replace {name} SameOperand 0");
                }
                match b.rhs() {
                    Expression::Literal(l) => match l.kind() {
                        LiteralKind::Num(v) => format!("Replace {name} Num {}", v.to_bits()),
                        LiteralKind::Int(v) => format!("Replace {name} Int {v}"),
                        _ => format!("Replace {name} OtherLiteral 0"),
                    },
                    _ => format!("Replace {name} OtherRhs 0"),
                }
            }
            PassAction::Replace(Expression::Unary(_)) => "Replace Unary x 0".into(),
            PassAction::Replace(_) => "Replace Other x 0".into(),
        }
    }
}
